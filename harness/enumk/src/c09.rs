//! C09: every packet encodes to the wire layout and decodes back losslessly.
use crate::now;
use common::refs::codec::{self, W};
use common::{Cli, Report, Violation, hex, par_for};
use passage_packets::configuration::clientbound as conf_out;
use passage_packets::configuration::serverbound as conf_in;
use passage_packets::handshake::serverbound as hand_in;
use passage_packets::login::clientbound as login_out;
use passage_packets::login::serverbound as login_in;
use passage_packets::status::clientbound as status_out;
use passage_packets::status::serverbound as status_in;
use passage_packets::{
    AsyncReadPacket, AsyncWritePacket, ChatMode, DisplayedSkinParts, MainHand, Packet, ParticleStatus, ReadPacket,
    ResourcePackResult, State, WritePacket,
};
use serde_json::{Value, json};
use std::fmt::Debug;
use std::io::Cursor;
use std::sync::atomic::{AtomicU64, Ordering};
use uuid::Uuid;

/// A reader that hands out at most `step` bytes per read (a transport that delivers the encoding in pieces).
struct Chunked {
    data: Vec<u8>,
    pos: usize,
    step: usize,
}
impl tokio::io::AsyncRead for Chunked {
    fn poll_read(mut self: std::pin::Pin<&mut Self>, _cx: &mut std::task::Context<'_>, buf: &mut tokio::io::ReadBuf<'_>) -> std::task::Poll<std::io::Result<()>> {
        let n = self.step.min(self.data.len() - self.pos).min(buf.remaining());
        let (a, b) = (self.pos, self.pos + n);
        buf.put_slice(&self.data[a..b]);
        self.pos = b;
        std::task::Poll::Ready(Ok(()))
    }
}

/// A writer that accepts `accept` bytes and then fails (`pending == false`) or blocks forever (`pending`).
struct Faulty {
    accept: usize,
    pending: bool,
    got: Vec<u8>,
}
impl tokio::io::AsyncWrite for Faulty {
    fn poll_write(mut self: std::pin::Pin<&mut Self>, _cx: &mut std::task::Context<'_>, buf: &[u8]) -> std::task::Poll<std::io::Result<usize>> {
        let left = self.accept - self.got.len().min(self.accept);
        if left == 0 {
            return if self.pending { std::task::Poll::Pending } else { std::task::Poll::Ready(Err(std::io::ErrorKind::BrokenPipe.into())) };
        }
        let n = left.min(buf.len());
        self.got.extend_from_slice(&buf[..n]);
        std::task::Poll::Ready(Ok(n))
    }
    fn poll_flush(self: std::pin::Pin<&mut Self>, _cx: &mut std::task::Context<'_>) -> std::task::Poll<std::io::Result<()>> {
        std::task::Poll::Ready(Ok(()))
    }
    fn poll_shutdown(self: std::pin::Pin<&mut Self>, _cx: &mut std::task::Context<'_>) -> std::task::Poll<std::io::Result<()>> {
        std::task::Poll::Ready(Ok(()))
    }
}

/// polls a future once and drops it if it is not finished (a cancelled write)
fn poll_once<F: std::future::Future>(f: F) -> Option<F::Output> {
    let mut f = std::pin::pin!(f);
    let mut cx = std::task::Context::from_waker(std::task::Waker::noop());
    match f.as_mut().poll(&mut cx) {
        std::task::Poll::Ready(v) => Some(v),
        std::task::Poll::Pending => None,
    }
}

struct Ctx<'a> {
    rep: &'a Report,
    evals: AtomicU64,
    distinct: AtomicU64,
}

fn viol(cx: &Ctx, key: String, text: String, replay: Value, weight: u64) {
    cx.rep.violation(Violation { key, text, replay, weight });
}

/// Checks one packet value against the reference body bytes.
fn check_packet<T>(cx: &Ctx, name: &str, id: i32, pkt: T, ref_body: &[u8])
where
    T: WritePacket + ReadPacket + PartialEq + Debug + Clone + Send + Sync,
{
    cx.evals.fetch_add(1, Ordering::Relaxed);
    cx.distinct.fetch_add(1, Ordering::Relaxed);
    if T::ID != id {
        viol(cx, format!("{name}:id"), format!("packet id {} but the protocol assigns {id}", T::ID), json!({"packet": name}), 0);
    }
    let r = std::panic::catch_unwind(std::panic::AssertUnwindSafe(|| {
        let mut out: Vec<u8> = vec![];
        let w = now(pkt.write_to_buffer(&mut out));
        if let Err(e) = w {
            return Err(("encode-error", format!("encode failed: {e}")));
        }
        if out != ref_body {
            return Err((
                "encode-layout",
                format!("encoded {} but the protocol layout is {}", short(&out), short(ref_body)),
            ));
        }
        let mut cur = Cursor::new(ref_body.to_vec());
        match now(T::read_from_buffer(&mut cur)) {
            Err(e) => Err(("decode-error", format!("decode of the protocol layout failed: {e}"))),
            Ok(back) => {
                if back != pkt {
                    return Err(("decode-value", format!("decoded {back:?}")));
                }
                if cur.position() as usize != ref_body.len() {
                    return Err(("decode-consumed", format!("consumed {} of {}", cur.position(), ref_body.len())));
                }
                // the same bytes delivered in pieces decode to the same value
                let steps: &[usize] = if ref_body.len() <= 2048 { &[1, 2, 3, 7, 64] } else { &[1, 4093] };
                for step in steps {
                    let mut rd = Chunked { data: ref_body.to_vec(), pos: 0, step: *step };
                    match now(T::read_from_buffer(&mut rd)) {
                        Ok(b) if b == pkt && rd.pos == ref_body.len() => {}
                        Ok(b) => return Err(("decode-in-pieces", format!("delivered {step} byte(s) per read: decoded {b:?}, consumed {} of {}", rd.pos, ref_body.len()))),
                        Err(e) => return Err(("decode-in-pieces", format!("delivered {step} byte(s) per read: {e}"))),
                    }
                }
                Ok(())
            }
        }
    }));
    let r = match r {
        Ok(r) => r,
        Err(_) => Err(("panic", "panicked".to_string())),
    };
    if let Err((what, text)) = r {
        let dbg = format!("{pkt:?}");
        viol(
            cx,
            format!("{name}:{what}"),
            format!("{} -> {text}", trunc(&dbg)),
            json!({"packet": name, "value": trunc(&dbg), "reference_body_hex": short(ref_body)}),
            ref_body.len() as u64,
        );
    }
}

/// A full frame through `write_packet` / `read_packet`: `[len][id][body]`.
fn check_frame<T>(cx: &Ctx, name: &str, id: i32, pkt: T, ref_body: &[u8])
where
    T: WritePacket + ReadPacket + PartialEq + Debug + Clone + Send + Sync,
{
    cx.evals.fetch_add(1, Ordering::Relaxed);
    let expect = codec::frame(id, ref_body);
    let mut out: Vec<u8> = vec![];
    let r = std::panic::catch_unwind(std::panic::AssertUnwindSafe(|| now(out.write_packet(pkt.clone()))));
    match r {
        Ok(Ok(n)) => {
            if out != expect || n != expect.len() {
                viol(
                    cx,
                    format!("{name}:frame-layout"),
                    format!("frame {} expected {}", short(&out), short(&expect)),
                    json!({"packet": name, "value": trunc(&format!("{pkt:?}"))}),
                    expect.len() as u64,
                );
            }
        }
        other => viol(
            cx,
            format!("{name}:frame-encode-error"),
            format!("{other:?}"),
            json!({"packet": name, "value": trunc(&format!("{pkt:?}"))}),
            expect.len() as u64,
        ),
    }
    if expect.len() <= 10_000 {
        let mut cur = Cursor::new(expect.clone());
        let back = std::panic::catch_unwind(std::panic::AssertUnwindSafe(|| now(cur.read_packet::<T>())));
        match back {
            Ok(Ok(b)) if b == pkt && cur.position() as usize == expect.len() => {}
            other => viol(
                cx,
                format!("{name}:frame-decode"),
                format!("read_packet gave {} (consumed {} of {})", trunc(&format!("{other:?}")), cur.position(), expect.len()),
                json!({"packet": name, "frame_hex": short(&expect)}),
                expect.len() as u64,
            ),
        }
    }
}

/// Histories of writes on one thread: a packet that is written successfully, then a write that fails,
/// blocks and is abandoned, or cannot be encoded, then another packet. The frame of the last packet must be
/// exactly its own `[len][id][body]`, whatever happened before. Returns the number of histories.
fn write_histories(cx: &Ctx) -> u64 {
    let mut n = 0u64;
    let first = conf_out::TransferPacket { host: "first.example".into(), port: 25565 };
    let first_frame = codec::frame(0x0B, &W::new().string("first.example").varint(25565).done());
    let cookie = conf_out::StoreCookiePacket { key: "passage:authentication".into(), payload: (0..90u8).collect() };
    let cookie_frame = codec::frame(0x0A, &W::new().string("passage:authentication").bytes(&(0..90u8).collect::<Vec<u8>>()).done());
    let last = conf_out::KeepAlivePacket { id: 0x0102_0304_0506_0708 };
    let last_frame = codec::frame(0x04, &W::new().u64(0x0102_0304_0506_0708).done());
    let mut judge = |what: String, out: &[u8], want: &[u8]| {
        cx.evals.fetch_add(1, Ordering::Relaxed);
        if out != want {
            viol(cx, "frame-after-failed-write".into(), format!("history [Transfer ok, {what}, Keep Alive]: the last frame is {} but its layout is {}", short(out), short(want)), json!({"history": what}), out.len() as u64);
        }
    };
    for accept in 0..=cookie_frame.len() {
        for pending in [false, true] {
            if accept == cookie_frame.len() && pending {
                continue;
            }
            n += 1;
            let mut a: Vec<u8> = vec![];
            let _ = now(a.write_packet(first.clone()));
            if a != first_frame {
                viol(cx, "Transfer:frame-layout".into(), format!("frame {}", short(&a)), json!({"packet": "Transfer"}), 0);
            }
            let mut f = Faulty { accept, pending, got: vec![] };
            let r = poll_once(f.write_packet(cookie.clone()));
            // what the faulty transport did accept is a prefix of the cookie frame
            if f.got[..] != cookie_frame[..f.got.len().min(cookie_frame.len())] {
                viol(cx, "partial-frame-not-a-prefix".into(), format!("accepted {} of the Store Cookie frame {}", short(&f.got), short(&cookie_frame)), json!({"history": format!("accept {accept}")}), 0);
            }
            let what = format!("Store Cookie on a transport that accepts {accept} byte(s) and then {} -> {}", if pending { "blocks (write abandoned)" } else { "fails" }, match &r { None => "pending, dropped".to_string(), Some(Ok(k)) => format!("Ok({k})"), Some(Err(e)) => format!("Err({e})") });
            let mut c: Vec<u8> = vec![];
            let _ = now(c.write_packet(last.clone()));
            judge(what, &c, &last_frame);
        }
    }
    // a packet that cannot be encoded (a compound text component that is not JSON), then the next packet
    for reason in ["{not json", "{\"text\":", "{}}"] {
        n += 1;
        let mut a: Vec<u8> = vec![];
        let _ = now(a.write_packet(first.clone()));
        let mut b: Vec<u8> = vec![];
        let r = std::panic::catch_unwind(std::panic::AssertUnwindSafe(|| now(b.write_packet(conf_out::DisconnectPacket { reason: reason.to_string() }))));
        let mut c: Vec<u8> = vec![];
        let _ = now(c.write_packet(last.clone()));
        judge(format!("Disconnect with reason {reason:?} -> {}", match r { Ok(Ok(k)) => format!("Ok({k})"), Ok(Err(e)) => format!("Err({e})"), Err(_) => "panic".into() }), &c, &last_frame);
        // and a reader history: a failed decode must not influence the next decode
        let mut cur = Cursor::new(vec![0xff, 0xff, 0xff, 0xff, 0xff, 0xff]);
        let _ = std::panic::catch_unwind(std::panic::AssertUnwindSafe(|| now(cur.read_packet::<conf_in::KeepAlivePacket>())));
        let mut cur = Cursor::new(codec::frame(0x04, &W::new().u64(7).done()));
        cx.evals.fetch_add(1, Ordering::Relaxed);
        match now(cur.read_packet::<conf_in::KeepAlivePacket>()) {
            Ok(p) if p.id == 7 => {}
            other => viol(cx, "frame-decode-after-failed-decode".into(), format!("{other:?}"), json!({"history": "decode"}), 0),
        }
    }
    n
}

fn expect_reject<T>(cx: &Ctx, name: &str, what: &str, body: &[u8])
where
    T: ReadPacket + Debug + Send + Sync,
{
    cx.evals.fetch_add(1, Ordering::Relaxed);
    let mut cur = Cursor::new(body.to_vec());
    let r = std::panic::catch_unwind(std::panic::AssertUnwindSafe(|| now(T::read_from_buffer(&mut cur))));
    match r {
        Ok(Err(passage_packets::Error::IllegalEnumValue { .. })) => {}
        other => viol(
            cx,
            format!("{name}:enum-not-rejected:{what}"),
            format!("ordinal outside the defined range gave {}", trunc(&format!("{other:?}"))),
            json!({"packet": name, "body_hex": short(body)}),
            0,
        ),
    }
}

fn short(b: &[u8]) -> String {
    if b.len() <= 64 { hex(b) } else { format!("{}..(+{} bytes)", hex(&b[..48]), b.len() - 48) }
}
fn trunc(s: &str) -> String {
    if s.len() <= 300 { s.to_string() } else { format!("{}..(+{} chars)", s.chars().take(200).collect::<String>(), s.len() - 200) }
}

fn strings() -> Vec<String> {
    let mut v: Vec<String> = vec!["".into(), "a".into(), "é".into(), "😀".into(), "mc.example.org".into(), "{\"x\":1}".into()];
    for n in [127usize, 128, 255, 256, 16383, 16384, 32767] {
        v.push("x".repeat(n));
    }
    // multi-byte content crossing the one-byte length boundary
    v.push("é".repeat(64));
    // the protocol limit is 32767 UTF-16 units, i.e. up to three times as many bytes
    v.push("é".repeat(32767));
    v.push("€".repeat(32767));
    v.push("😀".repeat(16383));
    v
}
fn short_strings() -> Vec<String> {
    vec!["".into(), "a".into(), "é😀".into(), "x".repeat(128)]
}
fn byte_arrays() -> Vec<Vec<u8>> {
    vec![vec![], vec![0], vec![0xff; 127], vec![1; 128], (0..162u32).map(|i| i as u8).collect(), vec![7; 16384]]
}
fn varints() -> Vec<i32> {
    vec![0, 1, -1, 127, 128, 255, 256, 16383, 16384, 2097151, 2097152, 268435455, 268435456, i32::MAX, i32::MIN, 0x01020304, 769]
}
fn u16s() -> Vec<u16> {
    vec![0, 1, 255, 256, 0x0102, 25565, 32767, 32768, 65535]
}
fn u64s() -> Vec<u64> {
    vec![0, 1, 0x0102030405060708, u64::MAX, 1 << 63, 42]
}
fn i32s() -> Vec<i32> {
    vec![0, 1, -1, i32::MIN, i32::MAX, 0x01020304]
}
fn uuids() -> Vec<u128> {
    vec![0, u128::MAX, 0x0102030405060708090a0b0c0d0e0f10, 1 << 127]
}

// --- text components -------------------------------------------------------------------

/// Java's modified UTF-8 (what NBT strings use).
fn mutf8(s: &str) -> Vec<u8> {
    let mut out = vec![];
    for u in s.encode_utf16() {
        match u {
            0 => out.extend_from_slice(&[0xC0, 0x80]),
            1..=0x7f => out.push(u as u8),
            0x80..=0x7ff => out.extend_from_slice(&[0xC0 | (u >> 6) as u8, 0x80 | (u & 0x3f) as u8]),
            _ => out.extend_from_slice(&[0xE0 | (u >> 12) as u8, 0x80 | ((u >> 6) & 0x3f) as u8, 0x80 | (u & 0x3f) as u8]),
        }
    }
    out
}

fn text_string_ref(s: &str) -> Vec<u8> {
    let m = mutf8(s);
    let mut out = vec![0x08];
    out.extend_from_slice(&(m.len() as u16).to_be_bytes());
    out.extend_from_slice(&m);
    out
}

/// JSON text component -> the tree a network-NBT reader must see (booleans become bytes).
fn nbt_view(v: &Value) -> Value {
    match v {
        Value::Bool(b) => json!(*b as i8),
        Value::Array(a) => Value::Array(a.iter().map(nbt_view).collect()),
        Value::Object(o) => Value::Object(o.iter().map(|(k, v)| (k.clone(), nbt_view(v))).collect()),
        other => other.clone(),
    }
}

fn check_text_component(cx: &Ctx, text: &str) {
    cx.evals.fetch_add(1, Ordering::Relaxed);
    cx.distinct.fetch_add(1, Ordering::Relaxed);
    let pkt = conf_out::DisconnectPacket { reason: text.to_string() };
    let mut out: Vec<u8> = vec![];
    let w = std::panic::catch_unwind(std::panic::AssertUnwindSafe(|| now(pkt.write_to_buffer(&mut out))));
    if !matches!(w, Ok(Ok(()))) {
        viol(cx, "ConfDisconnect:text-encode-error".into(), format!("{text:?} -> {w:?}"), json!({"text": text}), text.len() as u64);
        return;
    }
    if !text.starts_with('{') {
        let expect = text_string_ref(text);
        if out != expect {
            let class = if text.chars().any(|c| c as u32 > 0xffff) {
                "supplementary-plane"
            } else if text.contains('\0') {
                "nul"
            } else {
                "bmp"
            };
            viol(
                cx,
                format!("ConfDisconnect:text-string-layout:{class}"),
                format!("{text:?} encoded {} but a TAG_String text component is {}", short(&out), short(&expect)),
                json!({"text": text}),
                text.len() as u64,
            );
        }
        // what the router wrote must at least be readable back by itself
        let mut cur = Cursor::new(out.clone());
        match now(conf_out::DisconnectPacket::read_from_buffer(&mut cur)) {
            Ok(b) if b.reason == text => {}
            other => viol(cx, "ConfDisconnect:text-string-roundtrip".into(), format!("{text:?} -> {other:?}"), json!({"text": text}), text.len() as u64),
        }
        return;
    }
    // compound: decode with the independent NBT reader and compare trees
    let want = nbt_view(&serde_json::from_str::<Value>(text).expect("domain is valid JSON"));
    match codec::nbt_network(&out) {
        Ok(tree) if tree == want => {}
        other => viol(
            cx,
            "ConfDisconnect:text-compound-layout".into(),
            format!("{text} encoded {} which an NBT reader sees as {other:?}", short(&out)),
            json!({"text": text}),
            text.len() as u64,
        ),
    }
    let mut cur = Cursor::new(out.clone());
    match now(conf_out::DisconnectPacket::read_from_buffer(&mut cur)) {
        Ok(b) if serde_json::from_str::<Value>(&b.reason).ok().as_ref() == Some(&want) => {}
        other => viol(cx, "ConfDisconnect:text-compound-roundtrip".into(), format!("{text} -> {other:?}"), json!({"text": text}), text.len() as u64),
    }
}

// --- VarInt / VarLong --------------------------------------------------------------------

fn check_varint(cx: &Ctx, v: i32) -> bool {
    let expect = codec::varint(v);
    let mut out: Vec<u8> = Vec::with_capacity(5);
    let ok_w = now(out.write_varint(v)).is_ok();
    let mut cur = Cursor::new(&expect[..]);
    let back = now(cur.read_varint());
    let ok = ok_w && out == expect && matches!(back, Ok(b) if b == v) && cur.position() as usize == expect.len() && expect.len() <= 5;
    if !ok {
        let class = if v < 0 { "negative" } else { "non-negative" };
        viol(
            cx,
            format!("varint:{class}"),
            format!("{v}: wrote {} (reference {}), read back {back:?} consuming {}", hex(&out), hex(&expect), cur.position()),
            json!({"varint": v}),
            expect.len() as u64,
        );
    }
    ok
}

fn check_varlong(cx: &Ctx, v: i64) {
    cx.evals.fetch_add(1, Ordering::Relaxed);
    let expect = codec::varlong(v);
    let mut out: Vec<u8> = Vec::with_capacity(10);
    let ok_w = now(out.write_varlong(v)).is_ok();
    let mut cur = Cursor::new(&expect[..]);
    let back = now(cur.read_varlong());
    let ok = ok_w && out == expect && matches!(back, Ok(b) if b == v) && cur.position() as usize == expect.len() && expect.len() <= 10;
    if !ok {
        let class = if v < 0 { "negative" } else { "non-negative" };
        viol(
            cx,
            format!("varlong:{class}"),
            format!("{v}: wrote {} (reference {}), read back {back:?} consuming {} of {}", hex(&out), hex(&expect), cur.position(), expect.len()),
            json!({"varlong": v}),
            expect.len() as u64,
        );
    }
}

fn varlong_domain() -> Vec<i64> {
    let mut v: Vec<i64> = vec![];
    // everything that encodes in <= 3 bytes
    v.extend(0..(1i64 << 21));
    // around every power of two and group boundary
    for p in 0..64u32 {
        let c = (1u64 << p) as i64;
        for d in -1024i64..=1024 {
            v.push(c.wrapping_add(d));
            v.push((!c).wrapping_add(d));
        }
    }
    // at most two non-zero 7-bit groups
    for g1 in 0..10u32 {
        for g2 in g1..10u32 {
            for a in [1u64, 0x40, 0x7f] {
                for b in [0u64, 1, 0x55, 0x7f] {
                    let x = (a << (7 * g1).min(63)) | (b << (7 * g2).min(63));
                    v.push(x as i64);
                }
            }
        }
    }
    // single-bit and single-zero patterns
    for p in 0..64u32 {
        v.push((1u64 << p) as i64);
        v.push(!(1u64 << p) as i64);
    }
    v.extend([i64::MIN, i64::MAX, -1, 0]);
    v
}

fn replay(cli: &Cli, case: &Value) -> ! {
    let rep = Report::new("C09", cli.tier, "exploration");
    let cx = Ctx { rep: &rep, evals: AtomicU64::new(0), distinct: AtomicU64::new(0) };
    if let Some(v) = case.get("varint").and_then(Value::as_i64) {
        check_varint(&cx, v as i32);
    } else if let Some(v) = case.get("varlong").and_then(Value::as_i64) {
        check_varlong(&cx, v);
    } else if let Some(t) = case.get("text").and_then(Value::as_str) {
        check_text_component(&cx, t);
    } else if case.get("history").is_some() {
        write_histories(&cx);
    } else {
        println!("packet-level cases are re-run by the full enumeration (cheap); running it");
        packets(&cx);
    }
    rep.finish()
}

fn packets(cx: &Ctx) {
    // ---- handshake
    for pv in varints() {
        for host in strings() {
            if host.len() > 40_000 && pv != 769 {
                continue; // the three longest strings once per port, not per protocol version
            }
            for port in u16s() {
                for (st, ord) in [(State::Status, 1), (State::Login, 2), (State::Transfer, 3)] {
                    let body = W::new().varint(pv).string(&host).u16(port).varint(ord).done();
                    check_packet(
                        cx,
                        "Handshake",
                        0x00,
                        hand_in::HandshakePacket { protocol_version: pv, server_address: host.clone(), server_port: port, next_state: st },
                        &body,
                    );
                }
            }
        }
    }
    for ord in [-1, 0, 4, i32::MAX, i32::MIN] {
        let body = W::new().varint(769).string("h").u16(1).varint(ord).done();
        expect_reject::<hand_in::HandshakePacket>(cx, "Handshake", &format!("next_state={ord}"), &body);
    }
    check_frame(
        cx,
        "Handshake",
        0,
        hand_in::HandshakePacket { protocol_version: 769, server_address: "x".repeat(300), server_port: 25565, next_state: State::Transfer },
        &W::new().varint(769).string(&"x".repeat(300)).u16(25565).varint(3).done(),
    );

    // ---- status
    for s in strings() {
        check_packet(cx, "StatusResponse", 0x00, status_out::StatusResponsePacket { body: s.clone() }, &W::new().string(&s).done());
    }
    for p in u64s() {
        check_packet(cx, "StatusPong", 0x01, status_out::PongPacket { payload: p }, &W::new().u64(p).done());
        check_packet(cx, "StatusPing", 0x01, status_in::PingPacket { payload: p }, &W::new().u64(p).done());
        check_frame(cx, "StatusPing", 0x01, status_in::PingPacket { payload: p }, &W::new().u64(p).done());
    }
    check_packet(cx, "StatusRequest", 0x00, status_in::StatusRequestPacket, &[]);
    check_frame(cx, "StatusRequest", 0x00, status_in::StatusRequestPacket, &[]);

    // ---- login clientbound
    // the reason of a login Disconnect is a JSON text component, for which the protocol allows 262144 UTF-16 units
    // (again up to three times as many bytes)
    for s in ["a".repeat(262_144), "\u{20ac}".repeat(90_000), "\u{20ac}".repeat(262_144), "\u{1f600}".repeat(131_072), format!("{{\"text\":\"{}\"}}", "\u{e9}".repeat(200_000))] {
        check_packet(cx, "LoginDisconnect", 0x00, login_out::DisconnectPacket { reason: s.clone() }, &W::new().string(&s).done());
    }
    for s in strings() {
        check_packet(cx, "LoginDisconnect", 0x00, login_out::DisconnectPacket { reason: s.clone() }, &W::new().string(&s).done());
        check_packet(cx, "LoginCookieRequest", 0x05, login_out::CookieRequestPacket { key: s.clone() }, &W::new().string(&s).done());
    }
    let tokens: Vec<[u8; 32]> = vec![[0; 32], [0xff; 32], core::array::from_fn(|i| i as u8)];
    for sid in short_strings() {
        for key in byte_arrays() {
            for tok in &tokens {
                for auth in [false, true] {
                    check_packet(
                        cx,
                        "EncryptionRequest",
                        0x01,
                        login_out::EncryptionRequestPacket { server_id: sid.clone(), public_key: key.clone(), verify_token: *tok, should_authenticate: auth },
                        &W::new().string(&sid).bytes(&key).bytes(tok).bool(auth).done(),
                    );
                }
            }
        }
    }
    for u in uuids() {
        for s in strings() {
            check_packet(
                cx,
                "LoginSuccess",
                0x02,
                login_out::LoginSuccessPacket { user_id: Uuid::from_u128(u), user_name: s.clone() },
                &W::new().u128(u).string(&s).varint(0).done(),
            );
            check_packet(
                cx,
                "LoginStart",
                0x00,
                login_in::LoginStartPacket { user_name: s.clone(), user_id: Uuid::from_u128(u) },
                &W::new().string(&s).u128(u).done(),
            );
        }
    }
    // ---- login serverbound
    for a in byte_arrays() {
        for b in byte_arrays() {
            check_packet(
                cx,
                "EncryptionResponse",
                0x01,
                login_in::EncryptionResponsePacket { shared_secret: a.clone(), verify_token: b.clone() },
                &W::new().bytes(&a).bytes(&b).done(),
            );
        }
    }
    check_packet(cx, "LoginAcknowledged", 0x03, login_in::LoginAcknowledgedPacket, &[]);
    check_frame(cx, "LoginAcknowledged", 0x03, login_in::LoginAcknowledgedPacket, &[]);
    for k in strings() {
        check_packet(cx, "LoginCookieResponse", 0x04, login_in::CookieResponsePacket { key: k.clone(), payload: None }, &W::new().string(&k).bool(false).done());
        for p in byte_arrays() {
            check_packet(
                cx,
                "LoginCookieResponse",
                0x04,
                login_in::CookieResponsePacket { key: k.clone(), payload: Some(p.clone()) },
                &W::new().string(&k).bool(true).bytes(&p).done(),
            );
        }
    }

    // ---- configuration clientbound
    for s in strings() {
        check_packet(cx, "ConfCookieRequest", 0x00, conf_out::CookieRequestPacket { key: s.clone() }, &W::new().string(&s).done());
        for p in byte_arrays() {
            check_packet(
                cx,
                "StoreCookie",
                0x0A,
                conf_out::StoreCookiePacket { key: s.clone(), payload: p.clone() },
                &W::new().string(&s).bytes(&p).done(),
            );
        }
        for port in u16s() {
            check_packet(
                cx,
                "Transfer",
                0x0B,
                conf_out::TransferPacket { host: s.clone(), port },
                &W::new().string(&s).varint(port as i32).done(),
            );
        }
    }
    check_frame(cx, "Transfer", 0x0B, conf_out::TransferPacket { host: "2001:db8::1".into(), port: 65535 }, &W::new().string("2001:db8::1").varint(65535).done());
    for id in u64s() {
        check_packet(cx, "ConfKeepAlive(cb)", 0x04, conf_out::KeepAlivePacket { id }, &W::new().u64(id).done());
        check_packet(cx, "ConfKeepAlive(sb)", 0x04, conf_in::KeepAlivePacket { id }, &W::new().u64(id).done());
        check_frame(cx, "ConfKeepAlive(sb)", 0x04, conf_in::KeepAlivePacket { id }, &W::new().u64(id).done());
    }
    for id in i32s() {
        check_packet(cx, "ConfPing", 0x05, conf_out::PingPacket { id }, &W::new().i32(id).done());
        check_packet(cx, "ConfPong", 0x05, conf_in::PongPacket { id }, &W::new().i32(id).done());
    }
    for u in uuids() {
        for url in short_strings() {
            for hash in short_strings() {
                for forced in [false, true] {
                    for prompt in [None, Some("plain prompt".to_string()), Some("".to_string())] {
                        let w = W::new().u128(u).string(&url).string(&hash).bool(forced).bool(prompt.is_some());
                        let w = match &prompt {
                            Some(p) => w.raw(&text_string_ref(p)),
                            None => w,
                        };
                        check_packet(
                            cx,
                            "AddResourcePack",
                            0x09,
                            conf_out::AddResourcePackPacket { uuid: Uuid::from_u128(u), url: url.clone(), hash: hash.clone(), forced, prompt_message: prompt.clone() },
                            &w.done(),
                        );
                    }
                }
            }
        }
    }
    // text components (Disconnect)
    for t in ["", "a", "é", "Disconnected: timeout", "日本語のテキスト", "😀", "a😀b", "nul\0byte", &"x".repeat(255), &"é".repeat(300), &"y".repeat(65535)] {
        check_text_component(cx, t);
    }
    for t in [
        r#"{"text":"Disconnected: No response from client (keep-alive timeout)"}"#,
        r#"{"text":"Verbindung getrennt: Kein verfügbarer Server für diese Verbindung"}"#,
        r#"{"text":"a","bold":true,"color":"red"}"#,
        r#"{"text":"","extra":[{"text":"x"},{"text":"y","italic":false}]}"#,
        r#"{"translate":"multiplayer.disconnect.generic","with":["a","b"]}"#,
        r#"{"text":"😀"}"#,
        r#"{}"#,
    ] {
        check_text_component(cx, t);
    }

    // ---- configuration serverbound: ClientInformation full product
    let locales: Vec<String> = vec!["".into(), "en_us".into(), "de_DE".into(), "zh-CN".into(), "é".into(), "x".repeat(16), "y".repeat(128)];
    let chat = [(ChatMode::Enabled, 0), (ChatMode::CommandsOnly, 1), (ChatMode::Hidden, 2)];
    let hands = [(MainHand::Left, 0), (MainHand::Right, 1)];
    let parts = [(ParticleStatus::All, 0), (ParticleStatus::Decreased, 1), (ParticleStatus::Minimal, 2)];
    for loc in &locales {
        for vd in [0i8, 1, -1, 127, -128] {
            for (cm, cmo) in chat {
                for cc in [false, true] {
                    for skin in [0u8, 1, 0x7f, 0xff] {
                        for (mh, mho) in hands {
                            for tf in [false, true] {
                                for sl in [false, true] {
                                    for (ps, pso) in parts {
                                        let body = codec::sb_client_information_body(loc, vd, cmo, cc, skin, mho, tf, sl, pso);
                                        check_packet(
                                            cx,
                                            "ClientInformation",
                                            0x00,
                                            conf_in::ClientInformationPacket {
                                                locale: loc.clone(),
                                                view_distance: vd,
                                                chat_mode: cm,
                                                chat_colors: cc,
                                                displayed_skin_parts: DisplayedSkinParts(skin),
                                                main_hand: mh,
                                                enable_text_filtering: tf,
                                                allow_server_listing: sl,
                                                particle_status: ps,
                                            },
                                            &body,
                                        );
                                    }
                                }
                            }
                        }
                    }
                }
            }
        }
    }
    for (field, bad) in [("chat_mode", [-1, 3, i32::MAX]), ("main_hand", [-1, 2, i32::MAX]), ("particle_status", [-1, 3, i32::MAX])] {
        for b in bad {
            let (c, m, p) = match field {
                "chat_mode" => (b, 0, 0),
                "main_hand" => (0, b, 0),
                _ => (0, 0, b),
            };
            let body = codec::sb_client_information_body("en_us", 8, c, true, 0, m, false, true, p);
            expect_reject::<conf_in::ClientInformationPacket>(cx, "ClientInformation", &format!("{field}={b}"), &body);
        }
    }
    let results = [
        ResourcePackResult::Success,
        ResourcePackResult::Declined,
        ResourcePackResult::DownloadFailed,
        ResourcePackResult::Accepted,
        ResourcePackResult::Downloaded,
        ResourcePackResult::InvalidUrl,
        ResourcePackResult::ReloadFailed,
        ResourcePackResult::Discorded,
    ];
    for u in uuids() {
        for (i, r) in results.iter().enumerate() {
            check_packet(
                cx,
                "ResourcePackResponse",
                0x06,
                conf_in::ResourcePackResponsePacket { uuid: Uuid::from_u128(u), result: *r },
                &W::new().u128(u).varint(i as i32).done(),
            );
        }
        for b in [-1, 8, i32::MAX] {
            expect_reject::<conf_in::ResourcePackResponsePacket>(cx, "ResourcePackResponse", &format!("result={b}"), &W::new().u128(u).varint(b).done());
        }
    }

    // ---- field-less packets: the id the protocol assigns and an empty round trip.
    // (Packets documented as placeholders in the sources carry no fields; only their id is judged.)
    macro_rules! unit {
        ($name:expr, $id:expr, $ty:ty, $val:expr) => {{
            cx.evals.fetch_add(1, Ordering::Relaxed);
            if <$ty as Packet>::ID != $id {
                viol(cx, format!("{}:id", $name), format!("packet id {} but the protocol assigns {}", <$ty as Packet>::ID, $id), json!({"packet": $name}), 0);
            }
            let mut out: Vec<u8> = vec![];
            let _ = now($val.write_to_buffer(&mut out));
            let mut cur = Cursor::new(out);
            if !matches!(now(<$ty>::read_from_buffer(&mut cur)), Ok(v) if v == $val) {
                viol(cx, format!("{}:roundtrip", $name), "does not round-trip".into(), json!({"packet": $name}), 0);
            }
        }};
    }
    unit!("SetCompression", 0x03, login_out::SetCompressionPacket, login_out::SetCompressionPacket);
    unit!("LoginPluginRequest", 0x04, login_out::LoginPluginRequestPacket, login_out::LoginPluginRequestPacket);
    unit!("LoginPluginResponse", 0x02, login_in::LoginPluginResponsePacket, login_in::LoginPluginResponsePacket);
    unit!("ConfPluginMessage(cb)", 0x01, conf_out::PluginMessagePacket, conf_out::PluginMessagePacket);
    unit!("FinishConfiguration", 0x03, conf_out::FinishConfigurationPacket, conf_out::FinishConfigurationPacket);
    unit!("ResetChat", 0x06, conf_out::ResetChatPacket, conf_out::ResetChatPacket);
    unit!("RegistryData", 0x07, conf_out::RegistryDataPacket, conf_out::RegistryDataPacket);
    unit!("RemoveResourcePack", 0x08, conf_out::RemoveResourcePackPacket, conf_out::RemoveResourcePackPacket);
    unit!("FeatureFlags", 0x0C, conf_out::FeatureFlagsPacket, conf_out::FeatureFlagsPacket);
    unit!("UpdateTags", 0x0D, conf_out::UpdateTagsPacket, conf_out::UpdateTagsPacket);
    unit!("KnownPacks(cb)", 0x0E, conf_out::KnownPacksPacket, conf_out::KnownPacksPacket);
    unit!("CustomReportDetails", 0x0F, conf_out::CustomReportDetailsPacket, conf_out::CustomReportDetailsPacket);
    unit!("ServerLinks", 0x10, conf_out::ServerLinksPacket, conf_out::ServerLinksPacket);
    unit!("ConfCookieResponse", 0x01, conf_in::CookieResponsePacket, conf_in::CookieResponsePacket);
    unit!("ConfPluginMessage(sb)", 0x02, conf_in::PluginMessagePacket, conf_in::PluginMessagePacket);
    unit!("AckFinishConfiguration", 0x03, conf_in::AckFinishConfigurationPacket, conf_in::AckFinishConfigurationPacket);
    unit!("KnownPacks(sb)", 0x07, conf_in::KnownPacksPacket, conf_in::KnownPacksPacket);
}

pub fn run(cli: Cli) -> ! {
    if let Some(case) = cli.replay.clone() {
        replay(&cli, &case);
    }
    let rep = Report::new("C09", cli.tier, "exploration");
    core(&rep, cli.tier.thorough());
    rep.finish()
}

/// The enumeration over the packet crate (everything but the replay of one case). netsim's C09 runs it and adds
/// the framing and decoding that happen inside a connection.
pub fn core(rep: &Report, thorough: bool) {
    let cx = Ctx { rep, evals: AtomicU64::new(0), distinct: AtomicU64::new(0) };

    packets(&cx);
    let packet_cases = cx.evals.load(Ordering::Relaxed);
    let histories = write_histories(&cx);
    rep.set("write_histories", json!(histories));

    // ---- VarInt
    let varint_count = AtomicU64::new(0);
    if thorough {
        let chunks = 4096usize;
        par_for(chunks, |c| {
            let lo = (c as u64) << 20;
            let hi = lo + (1 << 20);
            let mut n = 0u64;
            for u in lo..hi {
                check_varint(&cx, u as u32 as i32);
                n += 1;
            }
            varint_count.fetch_add(n, Ordering::Relaxed);
        });
    } else {
        let mut dom: Vec<i32> = (-(1 << 18)..(1 << 18)).collect();
        for p in 0..32u32 {
            let c = (1u32 << p) as i32;
            for d in -64..=64 {
                dom.push(c.wrapping_add(d));
                dom.push((!c).wrapping_add(d));
            }
        }
        dom.extend([i32::MIN, i32::MAX]);
        let chunks = 64;
        par_for(chunks, |c| {
            let lo = dom.len() * c / chunks;
            let hi = dom.len() * (c + 1) / chunks;
            for v in &dom[lo..hi] {
                check_varint(&cx, *v);
            }
            varint_count.fetch_add((hi - lo) as u64, Ordering::Relaxed);
        });
    }

    // ---- VarLong
    let dom = varlong_domain();
    let chunks = 64;
    par_for(chunks, |c| {
        let lo = dom.len() * c / chunks;
        let hi = dom.len() * (c + 1) / chunks;
        for v in &dom[lo..hi] {
            check_varlong(&cx, *v);
        }
    });

    let vi = varint_count.load(Ordering::Relaxed);
    rep.set("evaluations", json!(cx.evals.load(Ordering::Relaxed) + vi));
    rep.set("distinct_nontrivial", json!(cx.distinct.load(Ordering::Relaxed) + vi + dom.len() as u64));
    rep.set("packet_cases", json!(packet_cases));
    rep.set("varints", json!(vi));
    rep.set("varints_all_2_32", json!(thorough));
    rep.set("varlongs", json!(dom.len()));
    rep.set("exhaustive", json!(true));
    rep.set(
        "rule",
        json!("full product of per-field boundary domains for every packet type with fields (handshake, status, login, configuration), each compared byte-for-byte with an independent encoder and decoded back, also from a reader that delivers 1, 2, 3, 7 or 64 bytes per read (1 or 4093 for bodies above 2 KiB); strings up to the protocol limit of 32767 UTF-16 units in 1-, 2-, 3- and 4-byte characters (the login Disconnect reason, a JSON text component, up to its limit of 262144 units); histories [packet, a write that fails or blocks and is abandoned after every possible number of accepted bytes or a packet that cannot be encoded, packet] whose last frame must be unaffected; invalid enum ordinals; VarInt: all 2^32 (thorough) or |v|<2^18 plus +-64 around every power of two (quick); VarLong: all <=3-byte values, +-1024 around every power of two, two-group patterns, single-bit/zero patterns. Every enumerated value is distinct by construction."),
    );
    rep.sample(json!({"packet": "Handshake", "value": {"protocol_version": 769, "server_address": "mc.example.org", "server_port": 25565, "next_state": "Transfer"},
        "reference_body_hex": hex(&W::new().varint(769).string("mc.example.org").u16(25565).varint(3).done())}));
    rep.sample(json!({"varint": -1, "reference_hex": hex(&codec::varint(-1))}));
    rep.sample(json!({"varlong": i64::MIN, "reference_hex": hex(&codec::varlong(i64::MIN))}));
    rep.sample(json!({"packet": "Transfer", "value": {"host": "2001:db8::1", "port": 65535}, "reference_body_hex": hex(&W::new().string("2001:db8::1").varint(65535).done())}));
    rep.assume("field-less packet structs (documented as placeholders in the sources) are judged for their id and empty round trip only");
    rep.assume("string contents are the stated boundary families, not all strings; compound text components are compared as NBT trees (key order and the bool->byte mapping are not significant)");
}
