//! E2: bounded-exhaustive input enumeration against independent references.
mod c09;
mod c11;
mod c13;
mod c18;

use std::future::Future;
use std::pin::pin;
use std::task::{Context, Poll, Waker};

/// Drives a future that never waits (in-memory readers / writers) to completion.
pub fn now<F: Future>(f: F) -> F::Output {
    let mut f = pin!(f);
    let mut cx = Context::from_waker(Waker::noop());
    match f.as_mut().poll(&mut cx) {
        Poll::Ready(v) => v,
        Poll::Pending => common::machinery("in-memory future returned Pending"),
    }
}

fn main() {
    let cli = common::cli();
    match cli.id.as_str() {
        "C09" => c09::run(cli),
        "C11" => c11::run(cli),
        "C13" => c13::run(cli),
        "C18" => c18::run(cli),
        other => common::machinery(&format!("enumk does not serve {other}")),
    }
}
