//! E2: bounded-exhaustive input enumeration against independent references.
use enumk::{c09, c11, c13, c18};

fn main() {
    let args: Vec<String> = std::env::args().collect();
    if args.get(1).map(String::as_str) == Some("C11-find-shapes") {
        c11::find_shapes(args.get(2).and_then(|s| s.parse().ok()).unwrap_or(32));
        return;
    }
    let cli = common::cli();
    match cli.id.as_str() {
        "C09" => c09::run(cli),
        "C11" => c11::run(cli),
        "C13" => c13::run(cli),
        "C18" => c18::run(cli),
        other => common::machinery(&format!("enumk does not serve {other}")),
    }
}
