//! E2: bounded-exhaustive input enumeration against independent references.
use enumk::{c09, c11, c13, c18};

fn main() {
    let cli = common::cli();
    match cli.id.as_str() {
        "C09" => c09::run(cli),
        "C11" => c11::run(cli),
        "C13" => c13::run(cli),
        "C18" => c18::run(cli),
        other => common::machinery(&format!("enumk does not serve {other}")),
    }
}
