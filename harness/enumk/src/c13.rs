//! C13: per-address rate limiting is bounded, fair between addresses and self-cleaning.
//!
//! Explicit-state, depth-bounded enumeration of arrival histories over a small alphabet,
//! each replayed against a fresh real `RateLimiter` under tokio's paused clock. The oracle
//! is the set of bounds the statement gives (not the limiter's algorithm).
use common::{Cli, Report, Violation, par_for};
use opentelemetry_sdk::metrics::data::{AggregatedMetrics, MetricData, ResourceMetrics};
use opentelemetry_sdk::metrics::exporter::PushMetricExporter;
use opentelemetry_sdk::metrics::{PeriodicReader, SdkMeterProvider, Temporality};
use passage_protocol::rate_limiter::RateLimiter;
use serde_json::{Value, json};
use std::sync::atomic::{AtomicI64, AtomicU64, Ordering};
use std::sync::{Arc, Mutex};
use std::time::Duration;

const EPS: u64 = 1;
const KEYS: u8 = 3;

thread_local! {
    /// the window length (ms) of the limiter under test on this thread
    static D: std::cell::Cell<u64> = const { std::cell::Cell::new(8_000) };
}

fn d_ms() -> u64 {
    D.with(|d| d.get())
}

thread_local! {
    /// how long (ms) the limiter under test has existed before the first event of a history
    static AGE: std::cell::Cell<u64> = const { std::cell::Cell::new(0) };
}

/// so many other addresses attempt once each, at the same instant
const CROWD: u32 = 20_000;

/// advance alphabet in ms, relative to the window length: d/4, d/2, d-eps, d, d+eps, 2d-eps, 2d, 4d
fn delta(i: u8) -> u64 {
    let d = d_ms();
    [d / 4, d / 2, d - EPS, d, d + EPS, 2 * d - EPS, 2 * d, 4 * d][i as usize]
}
const N_DELTAS: usize = 8;

#[derive(Clone, Copy, Debug, PartialEq, Eq)]
enum Ev {
    Att(u8),
    Adv(u8),
    /// CROWD addresses that were never seen before attempt once each
    Crowd,
}

fn ev_json(h: &[Ev]) -> Value {
    Value::Array(
        h.iter()
            .map(|e| match e {
                Ev::Att(k) => json!(format!("attempt({})", (b'A' + k) as char)),
                Ev::Adv(i) => json!(format!("advance({}ms)", delta(*i))),
                Ev::Crowd => json!(format!("crowd({CROWD})")),
            })
            .collect(),
    )
}

fn ev_parse(v: &Value) -> Vec<Ev> {
    v.as_array()
        .map(|a| {
            a.iter()
                .filter_map(|e| {
                    let s = e.as_str()?;
                    if let Some(r) = s.strip_prefix("attempt(") {
                        Some(Ev::Att(r.as_bytes()[0] - b'A'))
                    } else if s.starts_with("crowd(") {
                        Some(Ev::Crowd)
                    } else {
                        let ms: u64 = s.strip_prefix("advance(")?.strip_suffix("ms)")?.parse().ok()?;
                        Some(Ev::Adv((0..N_DELTAS as u8).find(|i| delta(*i) == ms)?))
                    }
                })
                .collect()
        })
        .unwrap_or_default()
}

/// One attempt as observed: (key, time in ms since the limiter was created, admitted, gauge after it)
#[derive(Clone, Copy, Debug, PartialEq, Eq)]
struct Obs {
    key: u8,
    t: u64,
    ok: bool,
}

static GAUGE: AtomicI64 = AtomicI64::new(-1);

#[derive(Debug)]
struct GaugeExporter;

impl PushMetricExporter for GaugeExporter {
    async fn export(&self, metrics: &ResourceMetrics) -> opentelemetry_sdk::error::OTelSdkResult {
        for sm in metrics.scope_metrics() {
            for m in sm.metrics() {
                if m.name() == "rate_limiter_size" {
                    if let AggregatedMetrics::U64(MetricData::Gauge(g)) = m.data() {
                        for dp in g.data_points() {
                            GAUGE.store(dp.value() as i64, Ordering::SeqCst);
                        }
                    }
                }
            }
        }
        Ok(())
    }
    fn force_flush(&self) -> opentelemetry_sdk::error::OTelSdkResult {
        Ok(())
    }
    fn shutdown_with_timeout(&self, _t: Duration) -> opentelemetry_sdk::error::OTelSdkResult {
        Ok(())
    }
    fn temporality(&self) -> Temporality {
        Temporality::Cumulative
    }
}

/// Replays a history on a fresh limiter (must be called inside a paused runtime).
async fn replay(h: &[Ev], limit: usize, provider: Option<&SdkMeterProvider>, gauges: &mut Vec<i64>) -> Vec<Obs> {
    let mut rl: RateLimiter<u32> = RateLimiter::new(Duration::from_millis(d_ms()), limit);
    let age = AGE.with(|a| a.get());
    if age > 0 {
        tokio::time::advance(Duration::from_millis(age)).await;
    }
    let mut next_stranger = 1_000u32;
    let mut t = 0u64;
    let mut out = Vec::with_capacity(h.len());
    for e in h {
        match e {
            Ev::Adv(i) => {
                let d = delta(*i);
                tokio::time::advance(Duration::from_millis(d)).await;
                t += d;
            }
            Ev::Crowd => {
                for _ in 0..CROWD {
                    let _ = rl.enqueue(next_stranger);
                    next_stranger += 1;
                }
            }
            Ev::Att(k) => {
                let ok = rl.enqueue(u32::from(*k));
                out.push(Obs { key: *k, t, ok });
                if let Some(p) = provider {
                    if ok {
                        let _ = p.force_flush();
                        gauges.push(GAUGE.load(Ordering::SeqCst));
                    } else {
                        gauges.push(-1);
                    }
                }
            }
        }
    }
    out
}

/// Indexes (into obs) of the attempts that start a window for their key.
fn window_starts(obs: &[Obs], key: u8) -> Vec<usize> {
    let mut starts = vec![];
    let mut w: Option<u64> = None;
    for (i, o) in obs.iter().enumerate() {
        if o.key != key {
            continue;
        }
        match w {
            None => {
                w = Some(o.t);
                starts.push(i);
            }
            Some(ws) if o.t >= ws + d_ms() => {
                w = Some(o.t);
                starts.push(i);
            }
            _ => {}
        }
    }
    starts
}

/// Is there a sequence of window starts, consecutive ones at least `d` apart, such that no window holds more than
/// `lim` of the admissions at `t` (sorted, ms)? Boundaries are placed as early as possible (that is never worse);
/// times are doubled so that "just after t" is an integer.
fn windows_exist(t: &[u64], d: u64, lim: usize) -> bool {
    let n = t.len();
    if n <= lim {
        return true;
    }
    if lim == 0 {
        return false;
    }
    // best[i]: the earliest possible start of a window whose first admission is t[i] (None: unreachable)
    let mut best: Vec<Option<i128>> = vec![None; n + 1];
    best[0] = Some(i128::MIN / 4);
    for i in 0..n {
        let Some(b) = best[i] else { continue };
        for j in i + 1..=(i + lim).min(n) {
            if j == n {
                return true;
            }
            // the next window starts after t[j-1], at or before t[j], and at least d after this one
            let nb = (2 * t[j - 1] as i128 + 1).max(b + 2 * d as i128);
            if nb <= 2 * t[j] as i128 && best[j].is_none_or(|x| nb < x) {
                best[j] = Some(nb);
            }
        }
    }
    false
}

struct Stats {
    leaves: AtomicU64,
    runs: AtomicU64,
    rejected: AtomicU64,
    deletions: AtomicU64,
    distinct_decisions: Mutex<std::collections::HashSet<(u64, usize, Vec<bool>)>>,
}

fn viol(rep: &Report, key: &str, h: &[Ev], limit: usize, text: String) {
    rep.violation(Violation {
        key: key.to_string(),
        text: format!("limit={limit} d={}ms uptime-before={}ms history={} : {text}", d_ms(), AGE.with(|a| a.get()), ev_json(h)),
        replay: json!({"history": ev_json(h), "limit": limit, "d_ms": d_ms(), "age_ms": AGE.with(|a| a.get())}),
        weight: h.len() as u64,
    });
}

/// Evaluates all oracles except S1 on one history.
async fn evaluate(rep: &Report, st: &Stats, h: &[Ev], limit: usize) {
    let mut none = vec![];
    let obs = replay(h, limit, None, &mut none).await;
    st.runs.fetch_add(1, Ordering::Relaxed);
    let lim = limit as u64;

    for key in 0..KEYS {
        // B2: no more than `limit` admissions between two consecutive window starts. Where a limiter's windows
        // start is its own business (per key at the key's first attempt, on one grid for all keys, ...); what
        // every reading shares is that consecutive starts are at least d apart. So the oracle asks whether ANY
        // placement of window starts at least d apart leaves at most `limit` admissions of this key in every
        // window; it reports only if none exists.
        let admitted: Vec<u64> = obs.iter().filter(|o| o.key == key && o.ok).map(|o| o.t).collect();
        if !windows_exist(&admitted, d_ms(), limit) {
            viol(rep, "B2-window-overfull", h, limit, format!("key {} admitted at {admitted:?} ms: no placement of windows at least {} ms apart keeps every window at {limit} admissions or fewer", (b'A' + key) as char, d_ms()));
        }
        // B1: admits in any [t, t+d) <= 2*limit (enough to anchor t at admitted attempts)
        let mine: Vec<&Obs> = obs.iter().filter(|o| o.key == key).collect();
        for (i, a) in mine.iter().enumerate() {
            if !a.ok {
                continue;
            }
            let n = mine[i..].iter().filter(|o| o.ok && o.t < a.t + d_ms()).count() as u64;
            if n > 2 * lim {
                viol(rep, "B1-interval-overfull", h, limit, format!("key {} admitted {n} times in [{}, {}) ms", (b'A' + key) as char, a.t, a.t + d_ms()));
            }
        }
        // L1: first attempt of a key, or an attempt >= 2d after the key's previous attempt, is admitted
        let mut prev: Option<u64> = None;
        for o in &mine {
            let must = match prev {
                None => true,
                Some(p) => o.t >= p + 2 * d_ms(),
            };
            if must && !o.ok {
                viol(rep, "L1-idle-key-refused", h, limit, format!("key {} refused at {} ms although its previous attempt was at {:?} ms", (b'A' + key) as char, o.t, prev));
            }
            prev = Some(o.t);
        }
    }

    // I1: decisions for key A equal those of the history with all other keys' attempts deleted
    let only_a: Vec<Ev> = h.iter().copied().filter(|e| !matches!(e, Ev::Att(k) if *k != 0) && !matches!(e, Ev::Crowd)).collect();
    if only_a.len() != h.len() {
        let solo = replay(&only_a, limit, None, &mut none).await;
        st.runs.fetch_add(1, Ordering::Relaxed);
        let a_full: Vec<(u64, bool)> = obs.iter().filter(|o| o.key == 0).map(|o| (o.t, o.ok)).collect();
        let a_solo: Vec<(u64, bool)> = solo.iter().map(|o| (o.t, o.ok)).collect();
        if a_full != a_solo {
            viol(rep, "I1-other-keys-change-decisions", h, limit, format!("decisions for A with other keys present {a_full:?}, alone {a_solo:?}"));
        }
    }

    // R1: deleting a rejected attempt that is not a window start changes no other decision
    let mut is_start = vec![false; obs.len()];
    for key in 0..KEYS {
        for s in window_starts(&obs, key) {
            is_start[s] = true;
        }
    }
    let att_pos: Vec<usize> = h.iter().enumerate().filter(|(_, e)| matches!(e, Ev::Att(_))).map(|(i, _)| i).collect();
    for (j, o) in obs.iter().enumerate() {
        if o.ok {
            continue;
        }
        st.rejected.fetch_add(1, Ordering::Relaxed);
        if is_start[j] {
            continue;
        }
        let mut h2 = h.to_vec();
        h2.remove(att_pos[j]);
        let obs2 = replay(&h2, limit, None, &mut none).await;
        st.runs.fetch_add(1, Ordering::Relaxed);
        st.deletions.fetch_add(1, Ordering::Relaxed);
        let mut expect = obs.clone();
        expect.remove(j);
        if obs2 != expect {
            viol(rep, "R1-rejected-attempt-consumed", h, limit, format!("deleting the rejected attempt #{j} (key {} at {} ms) changes other decisions: with {:?} without {:?}",
                (b'A' + o.key) as char, o.t,
                expect.iter().map(|o| o.ok).collect::<Vec<_>>(), obs2.iter().map(|o| o.ok).collect::<Vec<_>>()));
        }
    }

    st.leaves.fetch_add(1, Ordering::Relaxed);
    let mut d = st.distinct_decisions.lock().unwrap();
    if d.len() < 2_000_000 {
        d.insert((d_ms(), limit, obs.iter().map(|o| o.ok).collect()));
    }
}

/// S1 on one history (single-threaded: the gauge is process-global).
async fn evaluate_size(rep: &Report, h: &[Ev], limit: usize, provider: &SdkMeterProvider, reads: &AtomicU64) {
    let mut gauges = vec![];
    let obs = replay(h, limit, Some(provider), &mut gauges).await;
    for (j, o) in obs.iter().enumerate() {
        if !o.ok {
            continue;
        }
        reads.fetch_add(1, Ordering::Relaxed);
        let g = gauges[j];
        if g < 0 {
            common::machinery("rate_limiter_size gauge not readable through the metrics SDK");
        }
        // keys whose most recent attempt (up to and including this one) is within the last 4d
        let mut recent = 0;
        for key in 0..KEYS {
            if let Some(last) = obs[..=j].iter().rev().find(|x| x.key == key) {
                if last.t + 4 * d_ms() >= o.t {
                    recent += 1;
                }
            }
        }
        if g as u64 > recent {
            viol(rep, "S1-stale-keys-tracked", h, limit, format!("after the admitted attempt #{j} at {} ms the limiter tracks {g} keys but only {recent} attempted within the last 4 durations", o.t));
        }
        if g == 0 {
            viol(rep, "S1-admitted-key-not-tracked", h, limit, format!("after the admitted attempt #{j} at {} ms the limiter reports 0 tracked keys", o.t));
        }
    }
}

/// All histories of exactly `depth` events (no two consecutive advances, first and last event an attempt)
fn enumerate(prefix: &mut Vec<Ev>, depth: usize, nodes: &mut u64, f: &mut dyn FnMut(&[Ev])) {
    if prefix.len() == depth {
        f(prefix);
        return;
    }
    for k in 0..KEYS {
        prefix.push(Ev::Att(k));
        *nodes += 1;
        enumerate(prefix, depth, nodes, f);
        prefix.pop();
    }
    let last_is_att = matches!(prefix.last(), Some(Ev::Att(_)));
    if last_is_att && prefix.len() + 1 < depth {
        for i in 0..N_DELTAS as u8 {
            prefix.push(Ev::Adv(i));
            *nodes += 1;
            enumerate(prefix, depth, nodes, f);
            prefix.pop();
        }
    }
}

fn paused_rt() -> tokio::runtime::Runtime {
    tokio::runtime::Builder::new_current_thread().enable_time().start_paused(true).build().expect("runtime")
}

pub fn run(cli: Cli) -> ! {
    run_with(cli, &|_rep| {})
}

/// `extra` is run before the report is finished (netsim's C13 adds histories through the real Listener there).
pub fn run_with(cli: Cli, extra: &dyn Fn(&Report)) -> ! {
    // the meter provider must be global before the limiter's instruments are first used
    let exporter = GaugeExporter;
    let reader = PeriodicReader::builder(exporter).with_interval(Duration::from_secs(3600)).build();
    let provider = SdkMeterProvider::builder().with_reader(reader).build();
    opentelemetry::global::set_meter_provider(provider.clone());

    let rep = Report::new("C13", cli.tier, "model_checking");
    let st = Stats {
        leaves: AtomicU64::new(0),
        runs: AtomicU64::new(0),
        rejected: AtomicU64::new(0),
        deletions: AtomicU64::new(0),
        distinct_decisions: Mutex::new(Default::default()),
    };
    let reads = AtomicU64::new(0);

    if let Some(case) = cli.replay.clone() {
        D.with(|d| d.set(case["d_ms"].as_u64().unwrap_or(8_000)));
        AGE.with(|a| a.set(case["age_ms"].as_u64().unwrap_or(0)));
        let h = ev_parse(&case["history"]);
        let limit = case["limit"].as_u64().unwrap_or(1) as usize;
        let rt = paused_rt();
        rt.block_on(async {
            let mut g = vec![];
            let obs = replay(&h, limit, Some(&provider), &mut g).await;
            for (o, g) in obs.iter().zip(g.iter()) {
                println!("t={:>6} ms key={} admitted={} tracked_keys_gauge={}", o.t, (b'A' + o.key) as char, o.ok, g);
            }
            evaluate(&rep, &st, &h, limit).await;
            evaluate_size(&rep, &h, limit, &provider, &reads).await;
        });
        rep.finish();
    }

    let depth = if cli.tier.thorough() { 9 } else { 7 };
    let size_depth = if cli.tier.thorough() { 7 } else { 6 };
    let limits = [1usize, 2, 3];

    // split the tree below depth 3 into jobs
    let mut jobs: Vec<Vec<Ev>> = vec![];
    let mut n0 = 0u64;
    enumerate(&mut vec![], 3, &mut n0, &mut |p| jobs.push(p.to_vec()));
    // prefixes of length 3 must be allowed to end in an advance as well
    let mut jobs2: Vec<Vec<Ev>> = vec![];
    for k in 0..KEYS {
        for k2 in 0..KEYS {
            for i in 0..N_DELTAS as u8 {
                jobs2.push(vec![Ev::Att(k), Ev::Att(k2), Ev::Adv(i)]);
            }
        }
    }
    jobs.extend(jobs2);
    // rotate by seed (order only)
    let rot = (common::seed() as usize) % jobs.len().max(1);
    jobs.rotate_left(rot);
    let nodes_total = AtomicU64::new(0);
    let jobs_ref = &jobs;
    let (rep_ref, st_ref) = (&rep, &st);
    // window lengths: whole seconds, fractional seconds, sub-second (one level shallower for the extra ones)
    // (and windows of two hours and of one day: whatever the limiter does "at least once per hour" or "after 30
    // minutes" regardless of the configured window shows there)
    let windows: Vec<(u64, usize)> = vec![(8_000, depth), (1_500, depth - 1), (400, depth - 1), (7_200_000, depth - 2), (86_400_000, depth - 1)];
    for (window_ms, depth) in windows.iter().copied() {
        par_for(jobs.len() * limits.len(), |ji| {
            D.with(|d| d.set(window_ms));
            let job = &jobs_ref[ji / limits.len()];
            let limit = limits[ji % limits.len()];
            let rt = paused_rt();
            rt.block_on(async {
                // collect leaves first (the enumeration callback is synchronous)
                let mut leaves: Vec<Vec<Ev>> = vec![];
                let mut nodes = 0u64;
                let mut p = job.clone();
                enumerate(&mut p, depth, &mut nodes, &mut |h| leaves.push(h.to_vec()));
                if limit == limits[0] {
                    nodes_total.fetch_add(nodes, Ordering::Relaxed);
                }
                for h in &leaves {
                    evaluate(rep_ref, st_ref, h, limit).await;
                }
            });
        });
    }
    D.with(|d| d.set(8_000));

    // A limiter that has been up for a long time: the same enumeration (two levels shallower) on a limiter whose
    // uptime crosses 2^31 ms and 2^32 ms (24.8 and 49.7 days) during the history.
    let aged_depth = depth - 2;
    for age in [(1u64 << 32) - 8_000, (1u64 << 31) - 8_000, (1u64 << 32) - 20_000] {
        par_for(jobs.len() * limits.len(), |ji| {
            D.with(|d| d.set(8_000));
            AGE.with(|a| a.set(age));
            let job = &jobs_ref[ji / limits.len()];
            let limit = limits[ji % limits.len()];
            let rt = paused_rt();
            rt.block_on(async {
                let mut leaves: Vec<Vec<Ev>> = vec![];
                let mut nodes = 0u64;
                let mut p = job.clone();
                enumerate(&mut p, aged_depth, &mut nodes, &mut |h| leaves.push(h.to_vec()));
                for h in &leaves {
                    evaluate(rep_ref, st_ref, h, limit).await;
                }
            });
            AGE.with(|a| a.set(0));
        });
    }

    // A crowd: every history of one address (attempts and advances, 4 / 5 events) with thousands of addresses
    // never seen before attempting once each at every possible position. Its decisions must be those of the
    // same history without the crowd (I1), and the bounds hold.
    let crowd_histories = AtomicU64::new(0);
    {
        let base_len = if cli.tier.thorough() { 5 } else { 4 };
        let mut bases: Vec<Vec<Ev>> = vec![];
        fn grow(p: &mut Vec<Ev>, len: usize, out: &mut Vec<Vec<Ev>>) {
            if p.len() == len {
                if matches!(p.last(), Some(Ev::Att(_))) {
                    out.push(p.clone());
                }
                return;
            }
            p.push(Ev::Att(0));
            grow(p, len, out);
            p.pop();
            if matches!(p.last(), Some(Ev::Att(_))) {
                for i in 0..N_DELTAS as u8 {
                    p.push(Ev::Adv(i));
                    grow(p, len, out);
                    p.pop();
                }
            }
        }
        grow(&mut vec![Ev::Att(0)], base_len, &mut bases);
        let bases = &bases;
        par_for(bases.len() * limits.len(), |ji| {
            D.with(|d| d.set(8_000));
            let base = &bases[ji / limits.len()];
            let limit = limits[ji % limits.len()];
            let rt = paused_rt();
            rt.block_on(async {
                for pos in 1..=base.len() {
                    let mut h = base.clone();
                    h.insert(pos.min(base.len()), Ev::Crowd);
                    if pos == base.len() {
                        // a crowd at the very end changes nothing that is observed: let the address come back once more
                        h.push(Ev::Att(0));
                    }
                    evaluate(rep_ref, st_ref, &h, limit).await;
                    crowd_histories.fetch_add(1, Ordering::Relaxed);
                }
            });
        });
    }
    rep.set("histories_with_a_crowd_of_20000_addresses", json!(crowd_histories.load(Ordering::Relaxed)));

    // S1 pass, single-threaded
    {
        let rt = paused_rt();
        rt.block_on(async {
            let mut leaves: Vec<Vec<Ev>> = vec![];
            let mut nodes = 0u64;
            enumerate(&mut vec![], size_depth, &mut nodes, &mut |h| leaves.push(h.to_vec()));
            for h in &leaves {
                // only histories that can age a key out are interesting for S1: they contain a long advance
                if !h.iter().any(|e| matches!(e, Ev::Adv(i) if delta(*i) >= 2 * d_ms() - EPS)) {
                    continue;
                }
                for limit in [1usize, 2] {
                    evaluate_size(&rep, h, limit, &provider, &reads).await;
                }
            }
        });
    }

    let leaves = st.leaves.load(Ordering::Relaxed);
    let distinct = st.distinct_decisions.lock().unwrap().len() as u64;
    let nodes = nodes_total.load(Ordering::Relaxed) + n0 + 72;
    rep.require("distinct decision vectors", distinct, 50);
    rep.require("rejected attempts seen", st.rejected.load(Ordering::Relaxed), 100);
    rep.require("deletion (R1) reruns", st.deletions.load(Ordering::Relaxed), 100);
    rep.require("gauge reads", reads.load(Ordering::Relaxed), 100);
    rep.set("states", json!(nodes * limits.len() as u64));
    rep.set("transitions", json!(nodes * limits.len() as u64));
    rep.set("traces_validated_against_impl", json!(st.runs.load(Ordering::Relaxed)));
    rep.set("evaluations", json!(st.runs.load(Ordering::Relaxed)));
    rep.set("distinct_nontrivial", json!(distinct));
    rep.set("maximal_histories", json!(leaves));
    rep.set("depth", json!(depth));
    rep.set("size_oracle_depth", json!(size_depth));
    rep.set("gauge_reads", json!(reads.load(Ordering::Relaxed)));
    rep.set("rejected_attempts", json!(st.rejected.load(Ordering::Relaxed)));
    rep.set("deletion_reruns", json!(st.deletions.load(Ordering::Relaxed)));
    rep.set("exhaustive", json!(true));
    rep.set("rule", json!(format!(
        "every history of exactly {depth} events over attempt(A|B|C) and advance(d/4,d/2,d-1ms,d,d+1ms,2d-1ms,2d,4d), no two consecutive advances, for limit in 1..3 and window length d = 8 s (and d = 1.5 s, 0.4 s, one day one level shallower, two hours two levels shallower); every shorter history is a prefix; the same enumeration two levels shallower on a limiter whose uptime crosses 2^31 ms and 2^32 ms during the history; every history of one address of 4 (thorough 5) events with 20000 addresses never seen before attempting once each at every position. A state is the history reaching it (fresh RateLimiter replayed under the paused clock). distinct_nontrivial = distinct (limit, decision vector) pairs observed.")));
    rep.sample(json!({"history": ev_json(&[Ev::Att(0), Ev::Att(0), Ev::Adv(2), Ev::Att(1), Ev::Att(0), Ev::Adv(6), Ev::Att(0)]), "limit": 1}));
    rep.sample(json!({"history": ev_json(&jobs[0]), "limit": 2}));
    rep.assume("time is tokio's paused clock; inter-arrival times are the stated alphabet (real-valued time in between is represented by the +-1 ms neighbours of d and 2d)");
    rep.assume("three keys; keys are symmetric in the limiter, so independence (I1) is evaluated for key A only");
    rep.assume("S1 (tracked keys) is read through the OpenTelemetry SDK gauge rate_limiter_size in a single-threaded pass (the gauge is process-global) and only at admitted attempts, the only points at which the limiter updates it");
    let _ = Arc::new(());
    extra(&rep);
    rep.finish()
}
