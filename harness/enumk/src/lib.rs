//! E2 as a library: bounded-exhaustive input enumeration against independent references.
pub mod c09;
pub mod c11;
pub mod c13;
pub mod c18;

use std::future::Future;
use std::pin::pin;
use std::task::{Context, Poll, Waker};

/// Drives a future that never waits (in-memory readers / writers) to completion.
pub fn now<F: Future>(f: F) -> F::Output {
    let mut f = pin!(f);
    let mut cx = Context::from_waker(Waker::noop());
    match f.as_mut().poll(&mut cx) {
        Poll::Ready(v) => v,
        Poll::Pending => common::machinery("in-memory future returned Pending"),
    }
}
