//! C18: built-in filters and strategies never pick a disqualified target.
//!
//! Adapters are built exactly as the application builds them (`Dyn*::from_config` from
//! `passage::config` values, and for representative cases from YAML text through the
//! `config` crate); the oracle is an independent evaluator written from the statement.
use crate::now;
use common::{Cli, Report, Violation, par_for};
use passage::adapter::filter::DynFilterAdapters;
use passage::adapter::strategy::DynStrategyAdapter;
use passage::config as cfg;
use passage_adapters::Target;
use passage_adapters::filter::FilterAdapter;
use passage_adapters::strategy::StrategyAdapter;
use serde_json::{Value, json};
use std::collections::HashMap;
use std::net::SocketAddr;
use std::sync::atomic::{AtomicU64, Ordering};
use uuid::Uuid;

// ---------------------------------------------------------------------------------------
// the model of a configuration (independent of passage::config)
// ---------------------------------------------------------------------------------------

#[derive(Clone, Debug, PartialEq)]
enum Op {
    Equals(&'static str),
    NotEquals(&'static str),
    Exists,
    NotExists,
    In(Vec<&'static str>),
    NotIn(Vec<&'static str>),
}

#[derive(Clone, Debug, PartialEq)]
struct Rule {
    key: &'static str,
    op: Op,
}

#[derive(Clone, Copy, Debug, PartialEq)]
enum NameRe {
    StartsP, // "^p"
    EndsQ,   // "q$"
}

#[derive(Clone, Debug, PartialEq)]
struct Lists {
    usernames: Option<Vec<&'static str>>,
    regex: Option<NameRe>,
    ids: Option<Vec<u128>>,
}

#[derive(Clone, Debug, PartialEq)]
enum Kind {
    Meta(Vec<Rule>),
    Allow(Lists),
    Block(Lists),
}

#[derive(Clone, Copy, Debug, PartialEq)]
enum Scope {
    None,
    HostA, // "^a\\."
    HostB, // "^b\\."
    /// the plain host name "a.example" as the example configuration writes it: still a pattern (the dot
    /// matches any character) that is searched for anywhere in the name the player connected with
    Literal,
}

#[derive(Clone, Debug, PartialEq)]
struct Filter {
    scope: Scope,
    kind: Kind,
}

#[derive(Clone, Debug, PartialEq)]
enum Strategy {
    Any,
    Fill { field: &'static str, max: u32 },
}

#[derive(Clone, Copy, Debug)]
struct Player {
    name: &'static str,
    id: u128,
}

const P: Player = Player { name: "pa", id: 0x1111_1111_1111_4111_8111_1111_1111_1111 };
const Q: Player = Player { name: "aq", id: 0x2222_2222_2222_4222_8222_2222_2222_2222 };
const PQ: Player = Player { name: "pq", id: 0x3333_3333_3333_4333_8333_3333_3333_3333 };
/// a name outside [A-Za-z0-9_] (an offline-mode or custom-authentication name): lists apply to it like to any other
const PX: Player = Player { name: "p! x", id: 0x4444_4444_4444_4444_8444_4444_4444_4444 };

// ---------------------------------------------------------------------------------------
// model -> passage::config
// ---------------------------------------------------------------------------------------

fn to_cfg_filter(f: &Filter) -> cfg::OptionFilterAdapter {
    let hostname = match f.scope {
        Scope::None => None,
        Scope::HostA => Some("^a\\.".to_string()),
        Scope::HostB => Some("^b\\.".to_string()),
        Scope::Literal => Some("a.example".to_string()),
    };
    let lists = |l: &Lists| {
        (
            l.usernames.as_ref().map(|v| v.iter().map(|s| s.to_string()).collect::<Vec<_>>()),
            l.regex.map(|r| match r {
                NameRe::StartsP => "^p".to_string(),
                NameRe::EndsQ => "q$".to_string(),
            }),
            l.ids.as_ref().map(|v| v.iter().map(|u| Uuid::from_u128(*u).to_string()).collect::<Vec<_>>()),
        )
    };
    let filter = match &f.kind {
        Kind::Meta(rules) => cfg::FilterAdapter::Meta(cfg::MetaFilter {
            rules: rules
                .iter()
                .map(|r| cfg::FilterRule {
                    key: r.key.to_string(),
                    operation: match &r.op {
                        Op::Equals(v) => cfg::FilterOperation::Equals(v.to_string()),
                        Op::NotEquals(v) => cfg::FilterOperation::NotEquals(v.to_string()),
                        Op::Exists => cfg::FilterOperation::Exists,
                        Op::NotExists => cfg::FilterOperation::NotExists,
                        Op::In(v) => cfg::FilterOperation::In(v.iter().map(|s| s.to_string()).collect()),
                        Op::NotIn(v) => cfg::FilterOperation::NotIn(v.iter().map(|s| s.to_string()).collect()),
                    },
                })
                .collect(),
        }),
        Kind::Allow(l) => {
            let (usernames, username, ids) = lists(l);
            cfg::FilterAdapter::PlayerAllow(cfg::PlayerAllowFilter { usernames, username, ids })
        }
        Kind::Block(l) => {
            let (usernames, username, ids) = lists(l);
            cfg::FilterAdapter::PlayerBlock(cfg::PlayerBlockFilter { usernames, username, ids })
        }
    };
    cfg::OptionFilterAdapter { hostname, filter }
}

fn to_cfg_strategy(s: &Strategy) -> cfg::StrategyAdapter {
    match s {
        Strategy::Any => cfg::StrategyAdapter::Any,
        Strategy::Fill { field, max } => {
            cfg::StrategyAdapter::PlayerFill(cfg::PlayerFillStrategy { field: field.to_string(), max_players: *max })
        }
    }
}

// ---------------------------------------------------------------------------------------
// the independent evaluator
// ---------------------------------------------------------------------------------------

type Meta = Vec<(&'static str, &'static str)>;

fn meta_get<'a>(m: &'a Meta, k: &str) -> Option<&'a str> {
    m.iter().find(|(kk, _)| *kk == k).map(|(_, v)| *v)
}

fn rule_ok(r: &Rule, m: &Meta) -> bool {
    let v = meta_get(m, r.key);
    match &r.op {
        Op::Equals(x) => v == Some(*x),
        Op::NotEquals(x) => v != Some(*x),
        Op::Exists => v.is_some(),
        Op::NotExists => v.is_none(),
        Op::In(xs) => matches!(v, Some(val) if xs.contains(&val)),
        Op::NotIn(xs) => !matches!(v, Some(val) if xs.contains(&val)),
    }
}

fn lists_match(l: &Lists, p: &Player) -> bool {
    let by_name = l.usernames.as_ref().is_some_and(|v| v.contains(&p.name));
    let by_re = l.regex.is_some_and(|r| match r {
        NameRe::StartsP => p.name.starts_with('p'),
        NameRe::EndsQ => p.name.ends_with('q'),
    });
    let by_id = l.ids.as_ref().is_some_and(|v| v.contains(&p.id));
    by_name || by_re || by_id
}

fn scope_applies(s: Scope, host: &str) -> bool {
    match s {
        Scope::None => true,
        Scope::HostA => host.starts_with("a."),
        Scope::HostB => host.starts_with("b."),
        Scope::Literal => {
            let c: Vec<char> = host.chars().collect();
            let tail: Vec<char> = "example".chars().collect();
            (0..c.len()).any(|i| c[i] == 'a' && c.get(i + 1).is_some_and(|d| *d != '\n') && c.len() >= i + 2 + tail.len() && c[i + 2..i + 2 + tail.len()] == tail[..])
        }
    }
}

/// Indexes of the eligible targets, in discovery order. `allow_unconfigured_inert` selects the
/// reading of an allow filter with no list configured at all.
fn eligible(chain: &[Filter], metas: &[Meta], p: &Player, host: &str, allow_unconfigured_inert: bool) -> Vec<usize> {
    let mut alive: Vec<usize> = (0..metas.len()).collect();
    for f in chain {
        if !scope_applies(f.scope, host) {
            continue;
        }
        match &f.kind {
            Kind::Meta(rules) => alive.retain(|i| rules.iter().all(|r| rule_ok(r, &metas[*i]))),
            Kind::Allow(l) => {
                let unconfigured = l.usernames.is_none() && l.regex.is_none() && l.ids.is_none();
                if unconfigured && allow_unconfigured_inert {
                    continue;
                }
                if !lists_match(l, p) {
                    alive.clear();
                }
            }
            Kind::Block(l) => {
                if lists_match(l, p) {
                    alive.clear();
                }
            }
        }
    }
    alive
}

#[derive(Clone, Copy, Debug, PartialEq)]
enum Count {
    Num(u64),
    /// absent, non-numeric or not representable: the statement is silent
    Ambiguous { numeric: Option<i128> },
}

fn count_of(m: &Meta, field: &str) -> Count {
    match meta_get(m, field) {
        None => Count::Ambiguous { numeric: None },
        Some(s) => match s.parse::<i128>() {
            Ok(v) if (0..=u32::MAX as i128).contains(&v) && !s.starts_with('+') => Count::Num(v as u64),
            Ok(v) => Count::Ambiguous { numeric: Some(v) },
            Err(_) => Count::Ambiguous { numeric: None },
        },
    }
}

/// Is `chosen` acceptable for player-fill under one reading of ambiguous counts?
/// reading 0: ambiguous = 0 players; 1: ambiguous = not eligible; 2: ambiguous numeric = its value (negative: not eligible)
fn fill_ok(reading: u8, elig: &[usize], metas: &[Meta], field: &str, max: u32, chosen: Option<usize>) -> bool {
    let val = |i: usize| -> Option<i128> {
        match count_of(&metas[i], field) {
            Count::Num(n) => Some(n as i128),
            Count::Ambiguous { numeric } => match reading {
                0 => Some(0),
                1 => None,
                _ => match numeric {
                    Some(v) if v >= 0 => Some(v),
                    _ => None,
                },
            },
        }
    };
    let below: Vec<(usize, i128)> = elig.iter().filter_map(|i| val(*i).map(|v| (*i, v))).filter(|(_, v)| *v < max as i128).collect();
    match chosen {
        None => below.is_empty(),
        Some(c) => match below.iter().find(|(i, _)| *i == c) {
            None => false,
            Some((_, cv)) => below.iter().all(|(_, v)| v <= cv),
        },
    }
}

// ---------------------------------------------------------------------------------------
// running the real adapters
// ---------------------------------------------------------------------------------------

fn mk_targets(metas: &[Meta]) -> Vec<Target> {
    metas
        .iter()
        .enumerate()
        .map(|(i, m)| Target {
            identifier: format!("t{i}"),
            address: SocketAddr::from(([10, 0, 0, i as u8 + 1], 25565)),
            meta: m.iter().map(|(k, v)| (k.to_string(), v.to_string())).collect::<HashMap<_, _>>(),
        })
        .collect()
}

fn index_of(t: &Target, all: &[Target]) -> Option<usize> {
    all.iter().position(|x| x.identifier == t.identifier && x.address == t.address && x.meta == t.meta)
}

struct Built {
    filters: DynFilterAdapters,
    strategy: DynStrategyAdapter,
}

fn build(chain: &[Filter], strategy: &Strategy) -> Built {
    let filters = now(DynFilterAdapters::from_config(chain.iter().map(to_cfg_filter).collect()))
        .unwrap_or_else(|e| common::machinery(&format!("from_config(filter) failed: {e}")));
    let strategy = now(DynStrategyAdapter::from_config(to_cfg_strategy(strategy)))
        .unwrap_or_else(|e| common::machinery(&format!("from_config(strategy) failed: {e}")));
    Built { filters, strategy }
}

struct Ctx<'a> {
    rep: &'a Report,
    evals: AtomicU64,
    refused: AtomicU64,
    routed: AtomicU64,
    filtered_some: AtomicU64,
}

fn case_json(chain: &[Filter], strategy: &Strategy, metas: &[Meta], p: &Player, host: &str) -> Value {
    json!({
        "chain": format!("{chain:?}"),
        "strategy": format!("{strategy:?}"),
        "targets": metas.iter().map(|m| format!("{m:?}")).collect::<Vec<_>>(),
        "player": p.name, "host": host,
    })
}

fn evaluate(cx: &Ctx, b: &Built, chain: &[Filter], strategy: &Strategy, metas: &[Meta], p: &Player, host: &str) {
    cx.evals.fetch_add(1, Ordering::Relaxed);
    let targets = mk_targets(metas);
    let client: SocketAddr = "192.0.2.7:50000".parse().unwrap();
    let uid = Uuid::from_u128(p.id);
    let run = std::panic::catch_unwind(std::panic::AssertUnwindSafe(|| {
        let filtered = now(b.filters.filter(&client, (host, 25565), 769, (p.name, &uid), targets.clone()));
        let filtered = match filtered {
            Ok(f) => f,
            Err(e) => return Err(format!("filter error {e}")),
        };
        let sel = now(b.strategy.select(&client, (host, 25565), 769, (p.name, &uid), filtered.clone()));
        match sel {
            Ok(s) => Ok((filtered, s)),
            Err(e) => Err(format!("strategy error {e}")),
        }
    }));
    let weight = (chain.len() * 10 + metas.len()) as u64;
    let (filtered, chosen) = match run {
        Ok(Ok(x)) => x,
        Ok(Err(e)) => {
            cx.rep.violation(Violation { key: "adapter-error".into(), text: e, replay: case_json(chain, strategy, metas, p, host), weight });
            return;
        }
        Err(_) => {
            cx.rep.violation(Violation { key: "adapter-panic".into(), text: "panic".into(), replay: case_json(chain, strategy, metas, p, host), weight });
            return;
        }
    };
    let has_unconfigured_allow = chain
        .iter()
        .any(|f| matches!(&f.kind, Kind::Allow(l) if l.usernames.is_none() && l.regex.is_none() && l.ids.is_none()));
    let readings: &[bool] = if has_unconfigured_allow { &[false, true] } else { &[false] };
    let mut errors: Vec<(String, String)> = vec![];
    let mut ok_under_some = false;
    for inert in readings {
        let elig = eligible(chain, metas, p, host, *inert);
        // every survivor of the chain must be an eligible discovered target
        let surv: Vec<Option<usize>> = filtered.iter().map(|t| index_of(t, &targets)).collect();
        let mut err: Option<(String, String)> = None;
        if surv.iter().any(|s| s.is_none()) {
            err = Some(("filter-invented-target".into(), "the filter chain returned a target that was not discovered".into()));
        } else if let Some(bad) = surv.iter().flatten().find(|s| !elig.contains(s)) {
            err = Some((
                format!("filter-kept-disqualified:{}", chain_kinds(chain)),
                format!("the filter chain kept target #{bad} which does not qualify (eligible: {elig:?})"),
            ));
        } else if !elig.is_empty() && filtered.is_empty() {
            err = Some((
                format!("filter-dropped-all-qualified:{}", chain_kinds(chain)),
                format!("the filter chain returned nothing although targets {elig:?} qualify"),
            ));
        }
        let chosen_idx = chosen.as_ref().map(|t| index_of(t, &targets));
        if err.is_none() {
            match (&chosen_idx, strategy) {
                (Some(None), _) => err = Some(("strategy-invented-target".into(), "the chosen target was not discovered".into())),
                (Some(Some(c)), _) if !elig.contains(c) => {
                    err = Some((format!("chosen-disqualified:{}", chain_kinds(chain)), format!("chosen target #{c} does not qualify (eligible: {elig:?})")))
                }
                (c, Strategy::Any) => {
                    let want = elig.first().copied();
                    let got = c.as_ref().map(|x| x.unwrap());
                    if got != want {
                        err = Some(("any-not-first-eligible".into(), format!("default strategy chose {got:?}, the first eligible target is {want:?}")));
                    }
                }
                (c, Strategy::Fill { field, max }) => {
                    let got = c.as_ref().map(|x| x.unwrap());
                    if !(0..3u8).any(|r| fill_ok(r, &elig, metas, field, *max, got)) {
                        let counts: Vec<String> = elig.iter().map(|i| format!("#{i}:{:?}", meta_get(&metas[*i], field))).collect();
                        let k = if got.is_none() { "fill-refused-although-capacity" } else { "fill-wrong-choice" };
                        err = Some((k.into(), format!("player-fill(max={max}) chose {got:?}; eligible counts {counts:?}")));
                    }
                }
            }
        }
        match err {
            None => ok_under_some = true,
            Some(e) => errors.push(e),
        }
    }
    if !filtered.is_empty() && filtered.len() < targets.len() {
        cx.filtered_some.fetch_add(1, Ordering::Relaxed);
    }
    if chosen.is_some() {
        cx.routed.fetch_add(1, Ordering::Relaxed);
    } else {
        cx.refused.fetch_add(1, Ordering::Relaxed);
    }
    if !ok_under_some {
        let (key, text) = errors.into_iter().next().unwrap();
        cx.rep.violation(Violation {
            key,
            text: format!("{text}; case {}", case_json(chain, strategy, metas, p, host)),
            replay: case_json(chain, strategy, metas, p, host),
            weight,
        });
    }
}

fn chain_kinds(chain: &[Filter]) -> String {
    chain
        .iter()
        .map(|f| match &f.kind {
            Kind::Meta(r) => match r.first() {
                None => "meta".to_string(),
                Some(r) => format!(
                    "meta-{}",
                    match r.op {
                        Op::Equals(_) => "equals",
                        Op::NotEquals(_) => "not_equals",
                        Op::Exists => "exists",
                        Op::NotExists => "not_exists",
                        Op::In(_) => "in",
                        Op::NotIn(_) => "not_in",
                    }
                ),
            },
            Kind::Allow(_) => "allow".into(),
            Kind::Block(_) => "block".into(),
        })
        .collect::<Vec<_>>()
        .join("+")
}

// ---------------------------------------------------------------------------------------
// domains
// ---------------------------------------------------------------------------------------

fn rules() -> Vec<Rule> {
    let mut v = vec![];
    for key in ["k", "j"] {
        for op in [
            Op::Equals("v"),
            Op::NotEquals("v"),
            Op::Exists,
            Op::NotExists,
            Op::In(vec!["v", "w"]),
            Op::In(vec![]),
            Op::NotIn(vec!["v", "w"]),
            Op::NotIn(vec![]),
        ] {
            v.push(Rule { key, op });
        }
    }
    v
}

fn lists() -> Vec<Lists> {
    let mut v = vec![];
    for usernames in [None, Some(vec![]), Some(vec!["pa"]), Some(vec!["aq"])] {
        for regex in [None, Some(NameRe::StartsP), Some(NameRe::EndsQ)] {
            for ids in [None, Some(vec![P.id]), Some(vec![Q.id])] {
                v.push(Lists { usernames: usernames.clone(), regex, ids: ids.clone() });
            }
        }
    }
    v
}

fn kinds(max_rules: usize) -> Vec<Kind> {
    let mut v = vec![Kind::Meta(vec![])];
    let rs = rules();
    for r in &rs {
        v.push(Kind::Meta(vec![r.clone()]));
    }
    if max_rules >= 2 {
        for a in &rs {
            for b in &rs {
                v.push(Kind::Meta(vec![a.clone(), b.clone()]));
            }
        }
    }
    for l in lists() {
        v.push(Kind::Allow(l.clone()));
        v.push(Kind::Block(l));
    }
    v
}

fn filters(max_rules: usize) -> Vec<Filter> {
    let mut v = vec![];
    for kind in kinds(max_rules) {
        for scope in [Scope::None, Scope::HostA, Scope::HostB, Scope::Literal] {
            v.push(Filter { scope, kind: kind.clone() });
        }
    }
    v
}

fn target_shapes() -> Vec<Meta> {
    let mut v = vec![];
    // (a key that is present with an empty value is present: a marker label such as `maintenance: ""`)
    for k in [None, Some("v"), Some("w"), Some("x"), Some("")] {
        for j in [None, Some("v")] {
            let mut m: Meta = vec![];
            if let Some(k) = k {
                m.push(("k", k));
            }
            if let Some(j) = j {
                m.push(("j", j));
            }
            v.push(m);
        }
    }
    v
}

fn lists_of(shapes: &[Meta], max_len: usize) -> Vec<Vec<Meta>> {
    let mut out: Vec<Vec<Meta>> = vec![vec![]];
    let mut frontier: Vec<Vec<Meta>> = vec![vec![]];
    for _ in 0..max_len {
        let mut next = vec![];
        for l in &frontier {
            for s in shapes {
                let mut n = l.clone();
                n.push(s.clone());
                next.push(n);
            }
        }
        out.extend(next.iter().cloned());
        frontier = next;
    }
    out
}

const COUNTS: [Option<&str>; 10] =
    [None, Some(""), Some("x"), Some("-1"), Some("0"), Some("1"), Some("2"), Some("5"), Some("4294967295"), Some("4294967296")];

fn yaml_cases(cx: &Ctx) -> u64 {
    // representative configurations read from YAML text the way Config::read does (config crate + serde)
    let cases: Vec<(&str, Vec<Filter>, Strategy)> = vec![
        (
            "adapters:\n  filter:\n  - meta:\n      rules:\n      - key: k\n        op: equals\n        value: v\n",
            vec![Filter { scope: Scope::None, kind: Kind::Meta(vec![Rule { key: "k", op: Op::Equals("v") }]) }],
            Strategy::Any,
        ),
        (
            "adapters:\n  filter:\n  - hostname: \"^a\\\\.\"\n    fixed:\n      rules:\n      - field: k\n        op: not_equals\n        value: v\n",
            vec![Filter { scope: Scope::HostA, kind: Kind::Meta(vec![Rule { key: "k", op: Op::NotEquals("v") }]) }],
            Strategy::Any,
        ),
        (
            "adapters:\n  filter:\n  - meta:\n      rules:\n      - key: k\n        op: exists\n      - key: j\n        op: not_exists\n",
            vec![Filter { scope: Scope::None, kind: Kind::Meta(vec![Rule { key: "k", op: Op::Exists }, Rule { key: "j", op: Op::NotExists }]) }],
            Strategy::Any,
        ),
        (
            "adapters:\n  filter:\n  - meta:\n      rules:\n      - key: k\n        op: in\n        value: [v, w]\n",
            vec![Filter { scope: Scope::None, kind: Kind::Meta(vec![Rule { key: "k", op: Op::In(vec!["v", "w"]) }]) }],
            Strategy::Any,
        ),
        (
            "adapters:\n  filter:\n  - meta:\n      rules:\n      - key: k\n        op: not_in\n        value: [v, w]\n  strategy:\n    player_fill:\n      field: players\n      max_players: 2\n",
            vec![Filter { scope: Scope::None, kind: Kind::Meta(vec![Rule { key: "k", op: Op::NotIn(vec!["v", "w"]) }]) }],
            Strategy::Fill { field: "players", max: 2 },
        ),
        (
            "adapters:\n  filter:\n  - player_allow:\n      usernames: [pa]\n",
            vec![Filter { scope: Scope::None, kind: Kind::Allow(Lists { usernames: Some(vec!["pa"]), regex: None, ids: None }) }],
            Strategy::Any,
        ),
        (
            "adapters:\n  filter:\n  - hostname: \"^b\\\\.\"\n    player_block:\n      username: \"q$\"\n      ids: [\"11111111-1111-4111-8111-111111111111\"]\n",
            vec![Filter { scope: Scope::HostB, kind: Kind::Block(Lists { usernames: None, regex: Some(NameRe::EndsQ), ids: Some(vec![P.id]) }) }],
            Strategy::Any,
        ),
        (
            "adapters:\n  filter:\n  - player_allow:\n      username: \"^p\"\n  - player_block:\n      usernames: [pq]\n  strategy:\n    player_fill:\n      field: players\n      max_players: 5\n",
            vec![
                Filter { scope: Scope::None, kind: Kind::Allow(Lists { usernames: None, regex: Some(NameRe::StartsP), ids: None }) },
                Filter { scope: Scope::None, kind: Kind::Block(Lists { usernames: Some(vec!["pq"]), regex: None, ids: None }) },
            ],
            Strategy::Fill { field: "players", max: 5 },
        ),
        ("adapters:\n  strategy: any\n", vec![], Strategy::Any),
    ];
    let mut n = 0;
    let shapes: Vec<Meta> = {
        let mut v = vec![];
        for k in [None, Some("v"), Some("x")] {
            for j in [None, Some("v")] {
                for c in [None, Some("0"), Some("1"), Some("3")] {
                    let mut m: Meta = vec![];
                    if let Some(k) = k {
                        m.push(("k", k));
                    }
                    if let Some(j) = j {
                        m.push(("j", j));
                    }
                    if let Some(c) = c {
                        m.push(("players", c));
                    }
                    v.push(m);
                }
            }
        }
        v
    };
    let tls = lists_of(&shapes, 2);
    for (yaml, chain, strategy) in &cases {
        let parsed = config::Config::builder()
            .add_source(config::File::from_str(yaml, config::FileFormat::Yaml))
            .build()
            .and_then(|c| c.try_deserialize::<cfg::Config>());
        let conf = match parsed {
            Ok(c) => c,
            Err(e) => {
                cx.rep.violation(Violation {
                    key: "yaml-config-rejected".into(),
                    text: format!("documented configuration rejected: {e}; yaml: {yaml}"),
                    replay: json!({"yaml": yaml}),
                    weight: 0,
                });
                continue;
            }
        };
        let filters = now(DynFilterAdapters::from_config(conf.adapters.filter));
        let strat = now(DynStrategyAdapter::from_config(conf.adapters.strategy));
        let (Ok(filters), Ok(strat)) = (filters, strat) else {
            cx.rep.violation(Violation { key: "yaml-config-rejected".into(), text: format!("from_config failed for {yaml}"), replay: json!({"yaml": yaml}), weight: 0 });
            continue;
        };
        let b = Built { filters, strategy: strat };
        for metas in &tls {
            for p in [P, Q, PQ] {
                for host in ["a.example", "b.example"] {
                    evaluate(cx, &b, chain, strategy, metas, &p, host);
                    n += 1;
                }
            }
        }
    }
    n
}

pub fn run(cli: Cli) -> ! {
    let rep = Report::new("C18", cli.tier, "exploration");
    if cli.replay.is_some() {
        println!("C18 cases are printed in full in the replay file (chain, strategy, targets, player, host); the sweep is re-run, which re-evaluates that case.");
    }
    core(&rep, cli.tier.thorough());
    rep.finish()
}

/// The enumeration over adapters built from configuration values (everything but the whole connections, which
/// need sockets and live in netsim's C18).
pub fn core(rep: &Report, thorough: bool) {
    let cx = Ctx { rep, evals: AtomicU64::new(0), refused: AtomicU64::new(0), routed: AtomicU64::new(0), filtered_some: AtomicU64::new(0) };
    let shapes = target_shapes();
    let players = [P, Q, PQ, PX];
    // the same adapter instance is asked about these hosts one after the other; two of them differ only in
    // case (the host scopes are the case-sensitive patterns ^a\. and ^b\.), in both orders
    // the last four contain the plain host name "a.example" of the fourth scope without being equal to it
    // (a subdomain, the name with the marker a modded client appends, the fully qualified spelling) or match
    // it only as a pattern
    let hosts = ["a.example", "A.EXAMPLE", "b.example", "a.example", "B.example", "b.example", "A.example", "eu.a.example", "a.example\0FML3\0", "a.example.", "axexample"];

    // (a) single filters (meta with <= 2 rules, allow, block; all scopes) x target lists x players x hosts, default strategy
    let singles = filters(2);
    let tl_single = lists_of(&shapes, if thorough { 3 } else { 2 });
    par_for(singles.len(), |fi| {
        let chain = vec![singles[fi].clone()];
        let b = build(&chain, &Strategy::Any);
        for metas in &tl_single {
            for p in &players {
                for host in hosts {
                    evaluate(&cx, &b, &chain, &Strategy::Any, metas, p, host);
                }
            }
        }
    });

    // (b) chains of two filters from the reduced menu (meta with <= 1 rule, allow, block; all scopes)
    let menu = filters(1);
    let tl_pair = lists_of(&shapes, if thorough { 2 } else { 1 });
    let menu2: Vec<Filter> = if thorough { menu.clone() } else { menu.iter().filter(|f| f.scope != Scope::HostB && f.scope != Scope::Literal).cloned().collect() };
    par_for(menu.len(), |ai| {
        for bf in &menu2 {
            let chain = vec![menu[ai].clone(), bf.clone()];
            let b = build(&chain, &Strategy::Any);
            for metas in &tl_pair {
                for p in &players[..2] {
                    for host in hosts {
                        evaluate(&cx, &b, &chain, &Strategy::Any, metas, p, host);
                    }
                }
            }
        }
    });

    // (b') thorough: chains of three from a small menu
    if thorough {
        let small: Vec<Filter> = menu
            .iter()
            .filter(|f| match &f.kind {
                Kind::Meta(r) => r.len() == 1 && r[0].key == "k" && matches!(r[0].op, Op::Equals(_) | Op::NotIn(_) | Op::Exists),
                Kind::Allow(l) | Kind::Block(l) => l.usernames.is_none() && l.ids.is_none() && l.regex.is_some(),
            })
            .filter(|f| f.scope != Scope::HostB)
            .cloned()
            .collect();
        let tl3 = lists_of(&shapes, 2);
        par_for(small.len() * small.len(), |i| {
            let (a, b2) = (&small[i / small.len()], &small[i % small.len()]);
            for c in &small {
                let chain = vec![a.clone(), b2.clone(), c.clone()];
                let b = build(&chain, &Strategy::Any);
                for metas in &tl3 {
                    for p in &players[..2] {
                        evaluate(&cx, &b, &chain, &Strategy::Any, metas, p, "a.example");
                    }
                }
            }
        });
    }

    // (c) strategies x target lists with player counts, behind 3 chains
    let mut strategies = vec![Strategy::Any];
    for field in ["players", "missing"] {
        for max in [0u32, 1, 2, 5, u32::MAX] {
            strategies.push(Strategy::Fill { field, max });
        }
    }
    let count_shapes: Vec<Meta> = {
        let mut v = vec![];
        for k in [None, Some("v")] {
            for c in COUNTS.iter().take(if thorough { 10 } else { 8 }) {
                let mut m: Meta = vec![];
                if let Some(k) = k {
                    m.push(("k", k));
                }
                if let Some(c) = c {
                    m.push(("players", c));
                }
                v.push(m);
            }
        }
        v
    };
    let tl_counts = lists_of(&count_shapes, 3);
    let chains: Vec<Vec<Filter>> = vec![
        vec![],
        vec![Filter { scope: Scope::None, kind: Kind::Meta(vec![Rule { key: "k", op: Op::Equals("v") }]) }],
        vec![Filter { scope: Scope::HostA, kind: Kind::Meta(vec![Rule { key: "k", op: Op::NotExists }]) }],
    ];
    par_for(strategies.len() * chains.len(), |i| {
        let s = &strategies[i / chains.len()];
        let chain = &chains[i % chains.len()];
        let b = build(chain, s);
        for metas in &tl_counts {
            evaluate(&cx, &b, chain, s, metas, &P, "a.example");
        }
    });

    // (d) YAML path
    let yaml_n = yaml_cases(&cx);

    let evals = cx.evals.load(Ordering::Relaxed);
    rep.require("routed cases", cx.routed.load(Ordering::Relaxed), 1000);
    rep.require("refused cases", cx.refused.load(Ordering::Relaxed), 1000);
    rep.require("partially filtered lists", cx.filtered_some.load(Ordering::Relaxed), 1000);
    rep.set("evaluations", json!(evals));
    rep.set("distinct_nontrivial", json!(cx.filtered_some.load(Ordering::Relaxed) + cx.refused.load(Ordering::Relaxed)));
    rep.set("routed", json!(cx.routed.load(Ordering::Relaxed)));
    rep.set("refused", json!(cx.refused.load(Ordering::Relaxed)));
    rep.set("yaml_cases", json!(yaml_n));
    rep.set("single_filters", json!(singles.len()));
    rep.set("pair_menu", json!(menu.len()));
    rep.set("exhaustive", json!(true));
    rep.set("rule", json!("full product: every single filter (meta with 0-2 rules over 16 rule shapes, allow/block with 36 list shapes, 4 host scopes: none, two anchored patterns, one plain host name) x target lists x 3 players x 9 host spellings (two pairs differing only in case, asked one after the other on the same adapter instance in both orders; a subdomain, a modded client's marker and the fully qualified spelling of the plain host name, and a name that matches it only as a pattern); every ordered pair from the reduced menu; strategies (any, player_fill x 2 fields x 5 capacities) x target lists with 8-10 count spellings behind 3 chains; 9 YAML configurations through the config crate. Each case is distinct by construction; non-trivial = the chain removed some but not all targets, or the player was refused."));
    rep.sample(json!({"chain": "[meta k equals v @host ^a\\.]", "targets": ["{k:v}", "{k:w,j:v}"], "player": "pa", "host": "a.example", "expect": "first eligible = #0"}));
    rep.sample(json!({"strategy": "player_fill(players, max=2)", "targets": ["{players:1}", "{players:2}", "{players:x}"], "expect": "#0 (fullest below capacity) under every reading"}));
    rep.sample(json!({"chain": "[allow usernames=[aq] ids=[uuid_p]] + [block regex q$]", "player": "aq", "expect": "refused"}));
    rep.assume("absent, non-numeric and out-of-range player counts: the result is accepted if it is right under any of the readings (0 players / not eligible / numeric value)");
    rep.assume("an allow filter with no list configured at all is judged under both readings (nobody passes / inert)");
    rep.assume("regular expressions are the three fixed patterns ^p, q$, ^a\\. / ^b\\. whose meaning the oracle evaluates by prefix/suffix tests; the regex crate is trusted");
}
