#!/opt/veriftools/pyvenv/bin/python3
import json, sys, glob, jsonschema
s = json.load(open("/root/.vp/EVIDENCE.schema.json"))
for f in sorted(glob.glob("/verif/evidence/*.json")):
    try:
        jsonschema.validate(json.load(open(f)), s); print("ok  ", f)
    except Exception as e:
        print("BAD ", f, str(e)[:300])
