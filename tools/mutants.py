#!/usr/bin/env python3
"""tools/mutants.py [names...] — own one-line mutants of /repo (the planned list of DESIGN.md §8).

For every mutant: apply the textual replacement in /repo, run the repository's test suite
(to learn whether the 77 tests notice), run the property's quick check, revert, and append a JSON
line to /verif/mutants_results.jsonl. Nothing is ever committed to /repo.
"""
import json, os, subprocess, sys, time

M = [
    # (name, property, file, old, new)
    ("C01-keep-claimed-name", "C01", "passage-protocol/src/connection.rs", "login_start.user_name = auth_response.name;", "let _ = &auth_response.name;"),
    ("C01-skip-token-check", "C01", "passage-protocol/src/connection.rs", "if !crypto::verify_token(verify_token, &decrypted_verify_token) {", "if false && !crypto::verify_token(verify_token, &decrypted_verify_token) {"),
    ("C02-drop-ip-comparison", "C02", "passage-protocol/src/connection.rs", "if cookie.client_addr.ip() != self.client_address.ip() || expires_at < now {", "if expires_at < now {"),
    ("C10-expiry-off-by-one", "C10", "passage-protocol/src/connection.rs", "|| expires_at < now {", "|| expires_at <= now {"),
    ("C02-cookie-on-login-intent", "C02", "passage-protocol/src/connection.rs", "if handshake.next_state == State::Transfer {", "if handshake.next_state != State::Status {"),
    ("C02-skip-signature-check", "C02", "passage-protocol/src/connection.rs", "                if !ok {\n", "                if false && !ok {\n"),
    ("C03-transfer-to-handshake-port", "C03", "passage-protocol/src/connection.rs", "port: target.address.port(),", "port: handshake.server_port,"),
    ("C03-no-target-default-locale", "C03", "passage-protocol/src/connection.rs", '.localize(self.client_locale.as_deref(), "disconnect_no_target", &[])', '.localize(None, "disconnect_no_target", &[])'),
    ("C04-no-upper-bound", "C04", "passage-protocol/src/connection.rs", "if length <= 0 || length > self.max_packet_length {", "if length <= 0 {"),
    ("C04-zero-length-accepted", "C04", "passage-protocol/src/connection.rs", "if length <= 0 || length > self.max_packet_length {", "if length < 0 || length > self.max_packet_length {"),
    ("C05-decrypt-whole-buffer", "C05", "passage-protocol/src/crypto/stream.rs", "buf.filled_mut()[cursor..]", "buf.filled_mut()[..]"),
    ("C07-interval-25s", "C07", "passage-protocol/src/connection.rs", "pub const KEEP_ALIVE_INTERVAL: u64 = 16;", "pub const KEEP_ALIVE_INTERVAL: u64 = 25;"),
    ("C07-second-keep-alive-instead-of-disconnect", "C07", "passage-protocol/src/connection.rs", "                    if self.keep_alive_id.is_some() {", "                    if self.keep_alive_id.is_some() && self.max_packet_length < 0 {"),
    ("C08-outbound-remainder-dropped", "C08", "passage-protocol/src/connection.rs", "self.outbound.drain(..written);", "self.outbound.clear();"),
    ("C08-inbound-restarted-on-tick", "C08", "passage-protocol/src/connection.rs", "                    if !keep_alive { continue; }", "                    if !keep_alive { self.inbound.clear(); continue; }"),
    ("C09-transfer-port-i16", "C09", "passage-packets/src/configuration.rs", "buffer.write_varint(VarInt::from(self.port)).await?;", "buffer.write_varint(VarInt::from(self.port as i16)).await?;"),
    ("C10-properties-omitted", "C10", "passage-protocol/src/connection.rs", "                    profile_properties,\n", "                    profile_properties: vec![],\n"),
    ("C10-session-cookie-always-stored", "C10", "passage-protocol/src/connection.rs", "if session_cookie.is_none() {", "if true || session_cookie.is_none() {"),
    ("C10-signed-with-empty-key", "C10", "passage-protocol/src/connection.rs", "payload: sign(&auth_payload, secret),", 'payload: sign(&auth_payload, b""),'),
    ("C11-unsigned-digest", "C11", "passage-adapters/src/authentication/mod.rs", "BigInt::from_signed_bytes_be(&hasher.finalize()).to_str_radix(16)", "BigInt::from_bytes_be(num_bigint::Sign::Plus, &hasher.finalize()).to_str_radix(16)"),
    ("C13-limit-off-by-one", "C13", "passage-protocol/src/rate_limiter.rs", "if bucket_value >= self.limit {", "if bucket_value > self.limit {"),
    ("C14-max-length-not-forwarded", "C14", "passage-protocol/src/listener.rs", "            .with_max_packet_length(max_packet_length)\n", ""),
    ("C15-refused-connection-served", "C15", "passage-protocol/src/listener.rs", "            if !admitted {", "            if false && !admitted {"),
    ("C17-no-drain", "C17", "passage-protocol/src/listener.rs", "        self.tracker.wait().await;\n", ""),
    ("C17-spawned-outside-tracker", "C17", "passage-protocol/src/listener.rs", "        self.tracker.spawn(async move {", "        tokio::spawn(async move {"),
    ("C18-not-in-inverted", "C18", "passage-adapters/src/filter/meta.rs", "|| field_value.is_some_and(|v| !values.iter().any(|val| val == v))", "|| field_value.is_some_and(|v| values.iter().any(|val| val == v))"),
    ("C18-fill-prefers-emptiest", "C18", "passage-adapters/src/strategy/player_fill.rs", ".max_by_key(|(_, players)| *players)", ".min_by_key(|(_, players)| *players)"),
    ("C18-scoped-filter-drops", "C18", "passage-adapters/src/filter/option.rs", "            return Ok(targets);\n", "            return Ok(vec![]);\n"),
    ("C19-port-truncated", "C19", "passage-adapters/grpc/src/proto.rs", "            u16::try_from(value.port).map_err(|err| Error::FailedParse {\n                adapter_type: \"grpc\",\n                cause: err.into(),\n            })?,", "            value.port as u16,"),
    ("C19-metadata-dropped", "C19", "passage-adapters/grpc/src/proto.rs", "            meta: value\n                .meta\n                .into_iter()\n                .map(|entry| (entry.key, entry.value))\n                .collect(),", "            meta: Default::default(),"),
    ("C20-allocated-not-offered", "C20", "passage-adapters/agones/src/discovery_adapter.rs", '(state == "Ready" || state == "Allocated").then_some(target)', '(state == "Ready").then_some(target)'),
    ("C20-wrong-entry-removed", "C20", "passage-adapters/agones/src/discovery_adapter.rs", "targets.swap_remove(found);", "targets.swap_remove(0);"),
    # patch-based mutants (file = None, old = patch under tools/mutants/)
    ("C08-frame-buffer-per-thread", "C08", None, "tools/mutants/C08-frame-buffer-per-thread.diff", None),
    ("C20-cache-cleared-when-relist-starts", "C20", None, "tools/mutants/C20-cache-cleared-when-relist-starts.diff", None),
    ("C05-vectored-writes-bypass-the-cipher", "C05", None, "tools/mutants/C05-vectored-writes-bypass-the-cipher.diff", None),
    ("C04-zero-length-write-retried-forever", "C04", None, "tools/mutants/C04-zero-length-write-retried-forever.diff", None),
    ("C14-files-override-the-environment", "C14", None, "tools/mutants/C14-files-override-the-environment.diff", None),
    ("C14-config-file-overrides-the-secret-file", "C14", None, "tools/mutants/C14-config-file-overrides-the-secret-file.diff", None),
    ("C16-frame-buffer-per-thread", "C16", None, "tools/mutants/C08-frame-buffer-per-thread.diff", None),
    ("C20-update-not-applied", "C20", "passage-adapters/agones/src/discovery_adapter.rs", "Some(found) => *found = target,", "Some(_) => {}"),
]


def sh(cmd, **kw):
    return subprocess.run(cmd, shell=True, capture_output=True, text=True, **kw)


REPO = "/repo"
CHECK = "/verif/check"


def main():
    global REPO, CHECK
    args = sys.argv[1:]
    if args[:1] == ["--slot"]:
        # run in a scratch slot (tools/slot.sh setup <n>): /repo itself is not touched
        REPO, CHECK = f"/tmp/slot/{args[1]}/repo", f"/tmp/slot/{args[1]}/verif/check"
        args = args[2:]
    only = set(args)
    if not only and os.path.exists("/verif/mutants_results.jsonl"):
        os.remove("/verif/mutants_results.jsonl")
    assert sh(f"git -C {REPO} diff --quiet").returncode == 0, f"{REPO} has uncommitted changes"
    for name, prop, path, old, new in M:
        if only and name not in only:
            continue
        if path is None:
            if sh(f"git -C {REPO} apply /verif/{old}").returncode != 0:
                rec = {"mutant": name, "property": prop, "error": "patch does not apply"}
                open("/verif/mutants_results.jsonl", "a").write(json.dumps(rec) + "\n")
                print(rec, flush=True)
                continue
            full, src, path = None, None, old
        else:
            full = f"{REPO}/{path}"
            src = open(full).read()
        if full and src.count(old) != 1:
            rec = {"mutant": name, "property": prop, "error": f"pattern occurs {src.count(old)} times"}
            open("/verif/mutants_results.jsonl", "a").write(json.dumps(rec) + "\n")
            print(rec, flush=True)
            continue
        if full:
            open(full, "w").write(src.replace(old, new))
        try:
            t = sh(f"cd {REPO} && " + "cargo test --workspace --no-fail-fast --offline 2>&1 | grep -E '^test result|error(\\[|:)' | awk '/test result/ {p+=$4; f+=$6} /error/ {e+=1} END {print p+0\" \"f+0\" \"e+0}'")
            p, f, e = (t.stdout.split() + ["0", "0", "0"])[:3]
            c = sh(f"{CHECK} {prop} quick")
            lines = [l for l in c.stdout.splitlines() if l.startswith(("VIOLATION", "MACHINERY"))]
            rec = {"mutant": name, "property": prop, "file": path, "suite_passed": int(p), "suite_failed": int(f), "compile_errors": int(e),
                   "check_exit": c.returncode, "check_lines": lines[:4]}
        finally:
            sh(f"git -C {REPO} checkout -- .")
        open("/verif/mutants_results.jsonl", "a").write(json.dumps(rec) + "\n")
        print(json.dumps(rec)[:300], flush=True)
    if REPO == "/repo":
        sh("cd /verif/harness && cargo build --release --offline --workspace")
        sh("find /verif/replays -mindepth 1 -delete")
    print("mutants done")


main()
