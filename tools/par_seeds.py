#!/usr/bin/env python3
"""tools/par_seeds.py [--tier quick] [--slots 1,2,3,4] [seed names...]
Runs every kept seed (/verif/seeded/<seed>/patch.diff) through the quick check of the property it breaks,
several at a time, each in a scratch slot (tools/slot.sh: a git worktree of /repo plus a copy of the harness
under /tmp/slot/<n>), and merges the outcome into /verif/seeds_results.jsonl. /repo itself is never touched.
The slots must have been set up (tools/slot.sh setup <n>) and synced with the current harness
(tools/slot.sh sync <n>)."""
import json, os, queue, subprocess, sys, threading

args = sys.argv[1:]
tier = "quick"
slots = ["1", "2", "3", "4"]
while args and args[0].startswith("--"):
    if args[0] == "--tier":
        tier = args[1]
    elif args[0] == "--slots":
        slots = args[1].split(",")
    args = args[2:]
only = set(args)

prev = {}
if os.path.exists("/verif/seeds_results.jsonl"):
    for l in open("/verif/seeds_results.jsonl"):
        j = json.loads(l)
        prev[j["seed"]] = j

q = queue.Queue()
for seed in sorted(os.listdir("/verif/seeded")):
    d = f"/verif/seeded/{seed}"
    if os.path.exists(f"{d}/patch.diff") and (not only or seed in only):
        q.put(seed)
results = {}
lock = threading.Lock()


def worker(slot):
    while True:
        try:
            seed = q.get_nowait()
        except queue.Empty:
            return
        d = f"/verif/seeded/{seed}"
        meta = json.load(open(f"{d}/meta.json"))
        prop = meta["breaks_property"]
        base = meta.get("base", "")
        c = subprocess.run(["/verif/tools/slot.sh", "run", slot, f"{d}/patch.diff", prop, tier, base], capture_output=True, text=True)
        lines = c.stdout.splitlines()
        rc = None
        for l in lines:
            if l.startswith("exit="):
                rc = int(l[5:])
        keys = sorted({l.split("replay=")[1].split("/")[-1].replace(".json", "") for l in lines if l.startswith("VIOLATION")})
        mach = [l for l in lines if l.startswith("MACHINERY")]
        rec = {"seed": seed, "property": prop, "tier": tier, "check_exit": rc, "violation_keys": keys[:6], "n_keys": len(keys)}
        if mach:
            rec["machinery"] = mach[0][:200]
        if "patch does not apply" in c.stdout:
            rec = {"seed": seed, "property": prop, "error": "patch does not apply to the current tree"}
        with lock:
            results[seed] = rec
            print(json.dumps(rec)[:300], flush=True)


ts = [threading.Thread(target=worker, args=(s,)) for s in slots]
[t.start() for t in ts]
[t.join() for t in ts]
prev.update(results)
with open("/verif/seeds_results.jsonl", "w") as f:
    for k in sorted(prev):
        f.write(json.dumps(prev[k]) + "\n")
missed = [k for k, r in results.items() if r.get("check_exit") != 1]
print(f"seeds run: {len(results)}; not reported by the {tier} tier: {sorted(missed)}")
