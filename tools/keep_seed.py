#!/usr/bin/env python3
"""tools/keep_seed.py <seed-name e.g. C13-1> <src dir> <crate dir> <needs...>  -> /verif/seeded/<name>/"""
import json, os, shutil, sys
name, src, crate = sys.argv[1:4]
needs = " ".join(sys.argv[4:])
prop = name.split("-")[0]
conf = None
lookup = os.environ.get("CONFIRM_NAME", name)  # the name under which tools/confirm_seed.sh logged the confirmation
for l in open("/tmp/wt/confirm.log"):
    j = json.loads(l)
    if j.get("seed") == lookup:
        conf = j
assert conf and "error" not in conf, conf
sp, sf = map(int, conf["suite_plus_demo_with_change_pass_fail"].split())
dwp, dwf = map(int, conf["demo_with_change_pass_fail"].split())
dop, dof = map(int, conf["demo_without_change_pass_fail"].split())
assert sp - dwp == 77 and sf == dwf and dwf > 0 and dof == 0 and dop > 0, conf
dst = f"/verif/seeded/{name}"
os.makedirs(dst, exist_ok=True)
shutil.copy(f"{src}/patch.diff", dst)
shutil.copy(f"{src}/demo.rs", dst)
if os.path.exists(f"{src}/notes.md"):
    shutil.copy(f"{src}/notes.md", dst)
meta = {
    "seed": name, "breaks_property": prop, "needs_to_manifest": needs,
    "demo": {"file": "demo.rs", "how": f"copy to {crate}/tests/verif_demo.rs; cargo test --offline -p <crate> --test verif_demo"},
    "confirmed_in_scratch_worktree": {
        "existing_suite_with_change": f"{sp - dwp} passed, 0 failed",
        "demo_with_change": f"{dwp} passed, {dwf} failed",
        "demo_without_change": f"{dop} passed, {dof} failed",
        "command": "tools/confirm_seed.sh (cargo test --workspace --no-fail-fast --offline; cargo test -p <crate> --test verif_demo)",
    },
    "base": (conf.get("base") or "")[:7] or None,
    "author": "independent sub-agent given only the property text and a scratch worktree",
}
json.dump(meta, open(f"{dst}/meta.json", "w"), indent=1)
print("kept", dst)
