#!/bin/bash
# tools/confirm_seed.sh <name> <dir with patch.diff + demo.rs> <crate dir relative to repo root>
# Confirms in the scratch worktree /tmp/wt/confirm (created from /repo HEAD on first use):
#   with the change: existing suite passes (77) and the demo fails; without it: the demo passes.
# Appends a JSON line to /tmp/wt/confirm.log
set -u
NAME="$1"; DIR="$2"; CRATE="$3"; BASE="${4:-$(git -C /repo rev-parse HEAD)}"
WT=/tmp/wt/confirm
[ -d "$WT" ] || git -C /repo worktree add -q --detach "$WT" HEAD
cd "$WT" && git checkout -q --detach "$BASE" && git checkout -- . && git clean -fdq -e target
PKG=$(grep -m1 '^name' "$CRATE/Cargo.toml" | sed 's/.*"\(.*\)".*/\1/')
git apply "$DIR/patch.diff" || { echo "{\"seed\":\"$NAME\",\"error\":\"patch does not apply\"}" >> /tmp/wt/confirm.log; exit 1; }
mkdir -p "$CRATE/tests"; cp "$DIR/demo.rs" "$CRATE/tests/verif_demo.rs"
SUITE=$(cargo test --workspace --no-fail-fast --offline 2>&1 | grep -E "^test result" | awk '{p+=$4; f+=$6} END {print p" "f}')
DEMO_WITH=$(cargo test --offline -p "$PKG" --test verif_demo 2>&1 | grep -E "^test result" | awk '{p+=$4; f+=$6} END {print p" "f}')
git apply -R "$DIR/patch.diff"
DEMO_WITHOUT=$(cargo test --offline -p "$PKG" --test verif_demo 2>&1 | grep -E "^test result" | awk '{p+=$4; f+=$6} END {print p" "f}')
rm -f "$CRATE/tests/verif_demo.rs"; rmdir "$CRATE/tests" 2>/dev/null
git checkout -- . ; git clean -fdq -e target
echo "{\"seed\":\"$NAME\",\"base\":\"$BASE\",\"suite_plus_demo_with_change_pass_fail\":\"$SUITE\",\"demo_with_change_pass_fail\":\"$DEMO_WITH\",\"demo_without_change_pass_fail\":\"$DEMO_WITHOUT\"}" >> /tmp/wt/confirm.log
