#!/bin/bash
# tools/confirm_seed.sh <name> <dir with patch.diff + demo.rs> <crate dir relative to repo root>
# Confirms in the scratch worktree /tmp/wt/confirm (created from /repo HEAD on first use):
#   with the change: existing suite passes (77) and the demo fails; without it: the demo passes.
# Appends a JSON line to /tmp/wt/confirm.log (CONFIRM_WT / CONFIRM_LOG override the worktree and the log)
set -u
NAME="$1"; DIR="$2"; CRATE="$3"; BASE="${4:-$(git -C /repo rev-parse HEAD)}"
WT=${CONFIRM_WT:-/tmp/wt/confirm}
CLOG=${CONFIRM_LOG:-/tmp/wt/confirm.log}
[ -d "$WT" ] || git -C /repo worktree add -q --detach "$WT" HEAD
cd "$WT" && git checkout -q --detach "$BASE" && git checkout -- . && git clean -fdq -e target
PKG=$(grep -m1 '^name' "$CRATE/Cargo.toml" | sed 's/.*"\(.*\)".*/\1/')
git apply "$DIR/patch.diff" || { echo "{\"seed\":\"$NAME\",\"error\":\"patch does not apply\"}" >> "$CLOG"; exit 1; }
# DEMO_FEATURES (env): cargo features the demo needs (the suite is then run without the demo file and the
# two results are added, because the demo refuses to compile without the feature)
FEAT=${DEMO_FEATURES:+--features $DEMO_FEATURES}
if [ -n "${DEMO_FEATURES:-}" ]; then
  SUITE0=$(cargo test --workspace --no-fail-fast --offline 2>&1 | grep -E "^test result" | awk '{p+=$4; f+=$6} END {print p" "f}')
fi
mkdir -p "$CRATE/tests"; cp "$DIR/demo.rs" "$CRATE/tests/verif_demo.rs"
if [ -z "${DEMO_FEATURES:-}" ]; then
  SUITE=$(cargo test --workspace --no-fail-fast --offline 2>&1 | grep -E "^test result" | awk '{p+=$4; f+=$6} END {print p" "f}')
fi
DEMO_WITH=$(cargo test --offline -p "$PKG" $FEAT --test verif_demo 2>&1 | grep -E "^test result" | awk '{p+=$4; f+=$6} END {print p" "f}')
if [ -n "${DEMO_FEATURES:-}" ]; then
  SUITE=$(echo "$SUITE0 $DEMO_WITH" | awk '{print $1+$3" "$2+$4}')
fi
git apply -R "$DIR/patch.diff"
DEMO_WITHOUT=$(cargo test --offline -p "$PKG" $FEAT --test verif_demo 2>&1 | grep -E "^test result" | awk '{p+=$4; f+=$6} END {print p" "f}')
rm -f "$CRATE/tests/verif_demo.rs"; rmdir "$CRATE/tests" 2>/dev/null
git checkout -- . ; git clean -fdq -e target
echo "{\"seed\":\"$NAME\",\"base\":\"$BASE\",\"suite_plus_demo_with_change_pass_fail\":\"$SUITE\",\"demo_with_change_pass_fail\":\"$DEMO_WITH\",\"demo_without_change_pass_fail\":\"$DEMO_WITHOUT\"}" >> "$CLOG"
