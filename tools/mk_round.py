#!/usr/bin/env python3
"""tools/mk_round.py <round dir> <template under tools/prompts> <base worktree with a built target/> <ID>...
Creates, per property ID, a scratch git worktree of /repo at <round dir>/<ID> (with a copy of the base worktree's
build output so that the sub-agent's first build is incremental) and the sub-agent's instructions at
<round dir>/<ID>.prompt.md (property text filled into the template). Nothing from /verif but property texts goes in."""
import json, os, subprocess, sys
rd, tpl, base = sys.argv[1:4]
ids = sys.argv[4:]
props = {}
for l in open("/verif/properties.jsonl"):
    j = json.loads(l)
    props[j["id"]] = j
allp = "\n\n".join(f"* **{p['id']} - {p['title']}.** {p['statement']}" for p in props.values())
t = open(f"/verif/tools/prompts/{tpl}").read()
os.makedirs(rd, exist_ok=True)
for i in ids:
    wt = f"{rd}/{i}"
    if not os.path.isdir(wt):
        subprocess.run(["git", "-C", "/repo", "worktree", "add", "-q", "--detach", wt, "HEAD"], check=True)
        subprocess.run(["cp", "-r", f"{base}/target", f"{wt}/target"], check=True)
    p = props[i]
    s = t.replace("@WT@", wt).replace("@ID@", i).replace("@TITLE@", p["title"]).replace("@STATEMENT@", p["statement"]).replace("@ALLPROPS@", allp)
    open(f"{rd}/{i}.prompt.md", "w").write(s)
    print(f"{rd}/{i}.prompt.md")
