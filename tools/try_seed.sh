#!/bin/bash
# tools/try_seed.sh <patch.diff> <ID> [tier]   apply a seeded change to /repo, run the check, undo it, rebuild.
set -u
PATCH="$1"; ID="$2"; TIER="${3:-quick}"
if ! git -C /repo diff --quiet; then echo "/repo has uncommitted changes"; exit 3; fi
git -C /repo apply "$PATCH" || { echo "patch does not apply"; exit 3; }
/verif/check "$ID" "$TIER" > /tmp/try_seed.out 2>&1; RC=$?
git -C /repo checkout -- . ; git -C /repo clean -fdq   # (a change may add files)
grep -E "^(VIOLATION|KNOWN-FINDING|MACHINERY|property=)" /tmp/try_seed.out | cut -c1-400
echo "exit=$RC"
# rebuild the harness against the restored tree so that no stale binary is left behind
(cd /verif/harness && cargo build --release --offline --workspace >/dev/null 2>&1)
find /verif/replays -mindepth 1 -delete 2>/dev/null
# the evidence file now describes the run against the changed tree: put the committed one back
git -C /verif checkout -- "evidence/$ID.json" 2>/dev/null
