#!/usr/bin/env python3
"""tools/run_seeds.py [seed names...] — applies every kept seed (/verif/seeded/<seed>/patch.diff) to
/repo, runs the quick check of the property it breaks, reverts, and rewrites
/verif/seeds_results.jsonl. Seeds whose patch targets an older tree (meta.base) are applied on top of
that tree's version of the touched files. Nothing is ever committed to /repo."""
import json, os, subprocess, sys


def sh(cmd):
    return subprocess.run(cmd, shell=True, capture_output=True, text=True)


def main():
    only = set(sys.argv[1:])
    assert sh("git -C /repo diff --quiet").returncode == 0, "/repo has uncommitted changes"
    out = []
    prev = {}
    if os.path.exists("/verif/seeds_results.jsonl"):
        for l in open("/verif/seeds_results.jsonl"):
            j = json.loads(l)
            prev[j["seed"]] = j
    for seed in sorted(os.listdir("/verif/seeded")):
        d = f"/verif/seeded/{seed}"
        if not os.path.exists(f"{d}/patch.diff"):
            continue
        if only and seed not in only:
            if seed in prev:
                out.append(prev[seed])
            continue
        meta = json.load(open(f"{d}/meta.json"))
        prop = meta["breaks_property"]
        base = meta.get("base")
        note = ""
        ok = sh(f"git -C /repo apply --check {d}/patch.diff").returncode == 0
        if not ok and base:
            files = [l[6:].strip() for l in open(f"{d}/patch.diff") if l.startswith("+++ b/")]
            for f in files:
                sh(f"git -C /repo checkout {base} -- {f}")
            note = f"applied on the {base} version of {', '.join(files)}"
            ok = sh(f"git -C /repo apply --check {d}/patch.diff").returncode == 0
        if not ok:
            sh("git -C /repo checkout HEAD -- . && git -C /repo reset -q")
            rec = {"seed": seed, "property": prop, "error": "patch does not apply to the current tree"}
        else:
            sh(f"git -C /repo apply {d}/patch.diff")
            c = sh(f"/verif/check {prop} quick")
            keys = sorted({l.split("replay=")[1].split("/")[-1].replace(".json", "") for l in c.stdout.splitlines() if l.startswith("VIOLATION")})
            rec = {"seed": seed, "property": prop, "check_exit": c.returncode, "violation_keys": keys[:6], "n_keys": len(keys), "note": note}
            sh("git -C /repo checkout HEAD -- . && git -C /repo reset -q")
        out.append(rec)
        print(json.dumps(rec)[:260], flush=True)
    with open("/verif/seeds_results.jsonl", "w") as f:
        for r in out:
            f.write(json.dumps(r) + "\n")
    sh("cd /verif/harness && cargo build --release --offline --workspace")
    sh("find /verif/replays -mindepth 1 -delete")
    print("seeds done")


main()
