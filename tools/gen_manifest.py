#!/opt/veriftools/pyvenv/bin/python3
"""Generates /verif/MANIFEST.json from the table below and validates it against the schema."""
import json, subprocess, sys

# id -> (engine, level, technique, level text, level note, design ref)
CHECKS = {
 "C09": ("netsim", "exploration",
         "bounded-exhaustive enumeration of a finite product of field domains (all 2^32 VarInts in the thorough tier) against an independent reference codec (enumk's enumeration, run as a library); plus the framing and decoding that happen inside a connection (real Connection over the virtual transport)",
         "Every packet type with fields is encoded and decoded for the full product of per-field boundary domains (strings up to 32767 UTF-16 units in 1- to 4-byte characters, login Disconnect reasons up to 262144 units); inside connections: every clientbound frame of four exchanges taken in part and completed after the next timer event must decode whole, and well-framed packets with an out-of-range ordinal sent before Client Information and while routing must end the connection at once ( and compared byte-for-byte with an encoder written from the protocol description; every encoding is also decoded from a reader that delivers it in pieces of 1, 2, 3, 7, 64 bytes; write histories [packet, a write that fails or is abandoned after every possible number of accepted bytes, packet] must leave the last frame intact; VarInt is covered completely (thorough), VarLong on boundary-dense families. The space is finite and enumerated completely, so the result is a coverage statement, not a sample.",
         "The reference codec in harness/common/src/refs/codec.rs (unit-tested against the documented VarInt vectors) is trusted; string contents are boundary families, not all strings.", "DESIGN.md §4 C09"),
 "C11": ("netsim", "exploration",
         "bounded-exhaustive enumeration of (server id, secret, key) triples against an independent SHA-1 / two's-complement printer, with digest-class vacuity guards; plus enumerated whole-connection histories (real Listener + Connection + MojangAdapter over TCP against a mock session server, and the real Connection under virtual time) whose hash must be the reference hash of that connection's secret and key",
         "All enumerated inputs (2^14 / 2^20 counter secrets x 21 server ids (incl. leading / trailing / only white space, letter case, NUL, composed and decomposed accents) x 3 keys, every secret of <= 2 bytes, the published vectors split every way, server ids that read like numbers or booleans configured through the environment and the YAML file along Config::read -> from_config -> has-joined request, and 60 committed witnesses - found by a 2^35 search with the reference SHA-1 and re-validated with it on every run - of digests with a whole 32-bit word zero or all ones at each position, 5-7 leading zero / F nibbles, and negative digests whose low word is zero) are compared with an independent implementation; the run fails as machinery error unless negative digests and digests with 1..4 leading zero nibbles all occurred. The hash 'used towards the session service' is also judged where it is used: 8 connections and 3 multi-connection histories (same claimed name, different secrets, sequential and overlapping with a slow session server) over TCP, and 6 connections under virtual time whose Encryption Response comes at once, after 8 s and after 13 h.",
         "The independent SHA-1 is validated against FIPS and the published Minecraft vectors at start-up; the edge digest 0x80 00..00 is unreachable through the public function and not covered.", "DESIGN.md §4 C11"),
 "C13": ("netsim", "model_checking",
         "explicit-state, depth-bounded enumeration of all arrival histories over a timing alphabet, each replayed on a fresh real RateLimiter under tokio's paused clock, checked against the stated bounds and by differential deletion of events (enumk's enumeration, run as a library); plus fairness histories of real TCP connections through the real Listener",
         "All histories up to depth 7 (quick) / 9 (thorough) over 3 keys and 8 inter-arrival times including the +-1 ms neighbours of the window boundaries, for limits 1..3 and window lengths 8 s, 1.5 s and 0.4 s; the same enumeration two levels shallower on a limiter whose uptime crosses 2^31 ms and 2^32 ms during the history; every 4- (5-)event history of one address with 20000 addresses never seen before attempting at every position; 8 histories through the real Listener with three PROXY-announced sources arriving through two load balancers. Oracles are the bounds of the statement (per-window, per-interval, idle re-admission), independence from other keys and from cleanup (history with other keys deleted), rejected-attempts-consume-nothing (history with the rejected attempt deleted) and the tracked-key gauge read through the metrics SDK.",
         "tokio's paused clock is the time base; 3 keys, limits 1..3 and d in {8 s, 1.5 s, 0.4 s} stand for 'any'; the size gauge is only written (and judged) at admitted attempts.", "DESIGN.md §4 C13"),
 "C18": ("netsim", "exploration",
         "bounded-exhaustive enumeration of filter chains x strategies x target lists x players x host names, adapters built through the application's from_config (and YAML), against an independent evaluator (enumk's enumeration, run as a library); plus whole connections over TCP through the real Listener and Connection with host-scoped built-in filters",
         "Full product over every single filter shape (1035), under 4 host scopes (none, two anchored patterns, a plain host name), each asked about 9 host spellings (pairs differing only in case, consecutively on one adapter instance; a subdomain, a modded client's marker and the fully qualified spelling of the plain host name), every ordered pair from a reduced menu, all strategy configurations and target lists up to 3 with every count spelling; the oracle is written from the statement and accepts either reading where the statement is silent. 16 whole connections (Login / Transfer intent, session cookies naming another host, valid authentication cookies, a blocked player) must be routed by the rules that apply to the host of their own handshake.",
         "regex crate trusted for the three fixed patterns; readings of absent/non-numeric counts and of an allow filter with no list are both accepted.", "DESIGN.md §4 C18"),
 "C01": ("netsim", "model_checking",
         "explicit-state exploration over client scripts: the full product of handshake intent x encryption response x authentication verdict x routing, each run on the real Connection over a virtual transport, compared with a reference admission model (vsim's sweep, run as a library); plus whole connections over TCP whose authentication service is the real MojangAdapter in front of a mock session server that answers with incomplete profiles or errors",
         "Every element of the product intent(8) x encryption response(21) x verdict(7) x routing(2) x transport/latency variant(7) (about 16 000 quick / 49 000 thorough connections, plus a prior connection supplying a stale token, 70 histories of a fresh connection after one that ended badly with a frame stuck in the transport, the router's own cookie presented after its expiry while the service is down, cookies forged under the empty key / a line / the trimmed form of the two-line secret, and 32 whole connections whose session server answers 200 with something that is not a complete profile (or 204 / 403 / 500 / nothing); the intents include genuine-but-inapplicable and forged cookies of another identity, the variants an authentication service that takes 8 s / 17 s / never answers and an Encryption Response 13 h late) is executed against the real Connection::listen with scripted adapters whose arguments are logged; the reference model says who may be admitted and under which identity, and the wire is decoded with an independent codec and CFB8.",
         "rsa/aes/hmac crates trusted as primitives; the client byte streams are scripts over the stated alphabet (byte noise is C04).", "DESIGN.md §4 C01"),
 "C02": ("netsim", "model_checking",
         "exhaustive enumeration of cookie variants (every truncation, every single-bit flip, secrets, addresses, ages around every expiry, non-cookie bodies) on the real Connection, against a reference acceptance predicate with an independent HMAC-SHA-256 (vsim's sweep, run as a library); plus two-connection histories through the real Listener (cookie handed out at one announced source, presented from another)",
         "About 2 600 connections: each cookie variant forged with the harness's own HMAC, each judged by the Encryption Request flag, the authentication call log and the identity in Login Success; 12 cookie situations are repeated with the authentication service answering after 4 s / 8 s / 40 s and vouching or refusing; three cookies are valid when the connection starts and expired (2.1 s of real time later) when presented; four histories present the cookie the router itself issued on a first connection, at once and after its expiry has passed; ten structured secrets (lines, separators, padding) with cookies signed by every piece, prefix, suffix, trimmed form and the empty key; 17 pairs of client address and cookie address that a conversion between the IPv4 and IPv6 forms could confuse; 22 histories through the real Listener in which the cookie handed to a player at one PROXY-announced source is presented from another (same /64, same /24, mapped form, other port). Boundary ages use a clock protocol (repeat if the wall-clock second ticked).",
         "wall clock for cookie ages (cases repeated on a tick); multi-bit forgeries left to the HMAC construction.", "DESIGN.md §4 C02"),
 "C03": ("vsim", "model_checking",
         "full product discovery x filter x strategy outcomes x latencies and client locale x localisation table on the real Connection; argument-flow equalities from adapter call logs and an independent fallback-chain implementation",
         "Every combination of discovery list (IPv4/IPv6, duplicates, empty, error), filter outcome, strategy outcome and adapter latency, plus 19 locales x 9 tables on both no-target paths, every sequence of two or three lookups over 18 locales on one instance of the real localisation adapter, plus returning players (Transfer intent with a valid cookie naming each target on offer or a vanished one as the previous destination) x 5 discoveries x 4 filters x 5 strategies, plus schedules in which the Keep Alive of the 16 s tick is only partially accepted by the transport while a routing stage answers; Transfer host compared as an address, Disconnect text compared with an independent implementation of the region -> language -> default chain.",
         "locale keys compared as exact strings; when no table exists in the whole chain only 'one Disconnect, no Transfer' is judged.", "DESIGN.md §4 C03"),
 "C04": ("vsim", "fault_enumeration",
         "fault enumeration: one hostile frame from a structured alphabet injected in each of eleven protocol states of the real Connection (before and after encryption), with panic capture, a counting global allocator and virtual-time termination checks",
         "About 25 000 (quick) / 100 000 (thorough) runs: outer and inner length prefixes (negative, zero, off-by-one, 2^31-1, over-long), truncation at every offset, invalid UTF-8, enum ordinals, RSA shapes, valid RSA layers around secrets of 0-100 and verify tokens of 0-117 bytes, maxima that are not positive, well-formed logins whose locale has multi-byte characters straddling every byte offset up to 40, every tiny frame, well-formed Keep Alive frames with extreme ids (also while one is unanswered), and transport faults (the connection reset at a frame boundary and inside every legal frame of every state; every clientbound frame of a status exchange and of a login with slow routing refused by the transport with Ok(0) or BrokenPipe, at once or after two bytes); oracles: no panic, returns at the instant of EOF (a handler that keeps polling after end of stream is ended by the harness and reported), largest single allocation <= 2*max+64 KiB, out-of-range length refused at once, malformed input ends in an error with nothing granted.",
         "deviation bound 1 (one hostile frame per run); allocation measured per thread while the handler runs.", "DESIGN.md §4 C04"),
 "C05": ("vsim", "model_checking",
         "stateless depth-first exploration of every transport answer (accept any prefix, deliver any prefix, Pending) to the real CipherStream; complete for short messages, deviation-bounded (2/3) for long ones; oracle = independent AES-128-CFB8",
         "Every poll_read / poll_write answer is a choice point owned by the explorer; all answer sequences for messages up to 7 bytes and all sequences with at most 2 (quick) / 3 (thorough) deviations for messages up to 200 bytes are executed, with the encryption switch before, between or after messages, with a write that is polled once against a blocked or partially accepting transport and then abandoned before the next message, with gathered writes (write_vectored of three slices; the transport supports them), with a write that the transport refuses with a transient error and the caller offers again, and with read_buf through take into one growing Vec as the connection does; four whole logins (lock-step, bursts, one-byte transport) whose peer speaks one continuous independent CFB8 stream from the switch on; the wire must be the continuous encryption of exactly the bytes reported written; replays are checked for determinism.",
         "raw AES block function shared with the implementation; transport errors are C04's subject.", "DESIGN.md §4 C05"),
 "C06": ("vsim", "model_checking",
         "explicit-state breadth-first search over histories of serverbound packet kinds (a state is the history, replayed on a fresh real Connection), against a reference protocol automaton",
         "Breadth-first over 30 packet kinds (every id of every phase, six next-state values, three ping payloads, Encryption Responses whose verify token is empty / a 16- or 31-byte prefix / extended), expanding exactly the histories after which the implementation still waits, to depth 9 / 11, for 12 / 17 configurations (secret, status answer, discovery latency 0 / 12 / 15 / 17 s, one-byte transport, a Keep Alive only partially accepted while discovery answers, the whole history sent in bursts that arrive coalesced), plus 70 histories of a fresh connection after one that ended badly with a frame stuck in the transport; the automaton predicts the exact reply sequence in handshake, status and login phases and the reply set/order and routing constraints in the configuration phase.",
         "frames that match the expected id but carry trailing bytes may be read either way; tolerated configuration-phase packets are not fixed by the statement.", "DESIGN.md §4 C06"),
 "C07": ("vsim", "model_checking",
         "exhaustive enumeration of a timing alphabet (adapter latencies, Client Information delay, echo policy, login duration) under tokio's paused clock on the real Connection; oracle read off the timestamped wire log and the client's echo log",
         "2 000 (quick) / 90 000 (thorough) connections under virtual time; bounds of the statement: a Keep Alive at least every 16 s, never a second one while unechoed, no drop of a client whose echo preceded the Disconnect, a silent or wrong-id client gone within 16 s, Transfer exactly when routing completes, timeout text in the client's locale; also with the first Keep Alive only partially accepted by the transport (its sending time is the moment its first byte is accepted).",
         "real-valued time represented by +-1 ms neighbours of the period; events exactly on a tick are not judged.", "DESIGN.md §4 C07"),
 "C08": ("netsim", "model_checking",
         "deviation-bounded differential exploration of transport schedules on the real Connection: a segment boundary before every byte of the client's stream x pause classes aligned to the baseline's timer events, partial/delayed acceptance of every clientbound frame, one-byte segmentation, all 64 patterns of unbiased select draws; every run compared with the unsegmented baseline (vsim's sweep, run as a library); plus the client's first burst (PROXY header, first frame, rest) cut at every interesting place, sent as one segment or byte by byte through the real Listener over TCP",
         "Bound 1 complete for all classes in 11 scenarios (about 60 000 schedules; the classes include the coalesced arrival of every single step with the one before it, and two scenarios in which everything that does not need the server's answer is sent in one burst and must behave as the lock-step run of the same bytes; a scenario with a client that never echoes, whose Keep Alive count and Disconnect time must not depend on the Keep Alive frame being taken in part; 70 histories of a fresh connection after one that ended badly with a frame stuck in the transport); 170 connections through the real Listener (PROXY off / v1 / v2 x status / login) whose first burst is segmented; bound 2 for the stated pairs (thorough, about 2 million). The observable trace (clientbound packets other than keep-alives, service calls with arguments, outcome) must equal the baseline's, frames must arrive whole, and bytes that arrived before the end must have been consumed.",
         "pauses are classes relative to the baseline timeline; runs in which the pause makes the client itself miss a keep-alive deadline are counted and not judged; tokio built with --cfg tokio_unstable for seeded select draws.", "DESIGN.md §4 C08"),
 "C10": ("vsim", "model_checking",
         "enumeration of two-connection histories on the real Connection (authenticate and get transferred, then reconnect with what was stored); issued cookies opened with an independent HMAC-SHA-256 and JSON reader",
         "435 (quick) / 20 000 (thorough) histories over client address family, secret length class, prior session cookie, kind of second connection, identity, properties, target identifier and handshake host/port; the first connection is run twice to show the session id is fresh; three histories use real time to cross the expiry, three present the cookie in the very second in which its age equals the expiry, two let real time pass before the cookie is issued (the timestamp must be the time of issue), 20 second connections present no session cookie (they are routed too and must be given one), and 24 histories carry a several-KiB signed textures property over transports that take 1024, 100 or 1 byte per write.",
         "refresh of the cookie on the cookie-authenticated path is not judged; timestamps checked against the wall-clock bracket of the run.", "DESIGN.md §4 C10"),
 "C12": ("netsim", "exploration",
         "bounded-exhaustive enumeration of claimed user names over a 24-symbol alphabet of URL-significant characters; the real MojangAdapter's request line is captured by a loopback HTTP mock (verif-hooks origin override) and parsed independently",
         "Every name X, aXb (and every XY, pXYq in thorough) over the alphabet plus targeted injection payloads, for two server ids and shared secrets rotating over 30 digest shapes (sign x last byte x leading zeros): the raw request line must have the fixed path, exactly one username parameter decoding to the claimed name and exactly one serverId equal to the independently computed hash, nothing else. 8 whole connections and 3 multi-connection histories (same name, different secrets, sequential and overlapping) through the real Listener and Connection must each cause exactly one request with their own name and hash; 12 names x 9 answer plans of a failing session server (5xx, 4xx, 204, dropped connections) where every request that arrives, first or repeated, is judged.",
         "needs the add-only verif-hooks feature of passage-adapters-http; reqwest / url crates perform the encoding under test; TLS to the real session server is not exercised.", "DESIGN.md §4 C12"),
 "C14": ("netsim", "exploration",
         "finite product of operator configurations x client behaviours against the application's real entry point passage::start(config) in child processes (loopback TCP, SIGINT), with real-time deadlines",
         "One child process per configuration (max_packet_length, cookie expiry, timeout, PROXY mode; three of them read by Config::read() from a YAML file, a secret file and the environment, one with a number-like secret in PASSAGE_AUTHSECRET only); handshake frames of length max-1/max/max+1/max+50 and unterminated length prefixes, cookies just inside / outside the expiry, under another secret and under each of 7 pieces of the configured (two-line, newline-terminated) secret, a genuine cookie followed by its tag on another body, a cookie that expires while the client stalls, a 24 MiB status answer the client does not read until after the deadline, and 9-11 client behaviours (silent, flooding the configuration phase with ignorable frames across the deadline, dribbling, stopping at each protocol step, late PROXY header) each of which must be disconnected by timeout + 1.5 s; the process must exit cleanly on SIGINT.",
         "real time with a 1.5 s allowance (closing earlier is never a violation); 'keeps answering keep-alives while routing never completes' is covered under virtual time in C07 and by the gated backend in C17.", "DESIGN.md §4 C14"),
 "C15": ("netsim", "model_checking",
         "enumeration of all arrival histories (depth 3/4) of real TCP connections with PROXY v1/v2 headers over 13+ connection kinds (incl. headers split across segments and a source equal to the load balancer) x PROXY mode (v1+v2, v1 only, v2 only, neither, off) x limiter, against the real Listener (and passage::start), with a reference model of the effective address and a shadow instance of the real limiter; every verdict at a barrier",
         "About 4 700 histories / 13 000 connections (quick), 66 000 histories (thorough): served exactly when the shadow limiter admits the effective address, refused or header-less connections receive no byte and cost no budget, backend services and issued cookies see the announced source; configuration wiring is covered by histories through passage::start for v1-only / v2-only / both / off; 8 histories with a one second window in which a header arrives 2.5 s after its connection was accepted (the budget is charged at admission time); 8 histories (connection timeout 1 s) that begin with clients whose header never completes.",
         "loopback scheduling is not controlled (verdicts at barriers, 2 s deadlines); address-less headers (UNKNOWN / LOCAL) may be closed or treated as the peer.", "DESIGN.md §4 C15"),
 "C16": ("netsim", "model_checking",
         "enumeration of stall schedules: every stall point of 1, 2 or 9 (thorough: 40) hostile clients x PROXY on/off x limiter on/off, crowds of 600 (thorough: up to 3000) held connections, 1500 (5000) short-lived connections one after the other that end on each early exit, and 17 000 (70 000) connections that each announce a source never seen before, against the real Listener, a well-behaved client with another effective address must be served within one fixed bound",
         "87 (quick) / 173 (thorough) schedules: hostile sockets are held open at each stall point (silent, inside the PROXY header, mid-frame, after each login step, in configuration never echoing, slow garbage) while the well-behaved client performs a status exchange (and a full login); the bound (2 s) is the same for all schedules; with PROXY on the well-behaved client arrives through the same load-balancer peer as the hostile ones.",
         "real time on loopback, 'never' is a 2 s deadline where the correct behaviour takes milliseconds.", "DESIGN.md §4 C16"),
 "C17": ("netsim", "model_checking",
         "enumeration of shutdown schedules: placements of one or two in-flight connections over 7 progress points x the moment a new connection is attempted x PROXY on/off, plus a drain that lasts 11.5 s and a third in-flight connection that ends badly during the drain (backend panics or fails, garbage, hang-up) and three schedules under a connection timeout too large for the clock, against the real Listener and passage::start + SIGINT; observations at barriers",
         "106 (quick) / 327 (thorough) schedules: the listener must not return while an accepted connection is unfinished, in-flight connections receive exactly the packets of an undisturbed login including the Transfer, a connection opened after the stop receives no byte, listen() returns within 2 s of the last connection finishing (or within the connection timeout for a non-cooperating client).",
         "the slow backend is a semaphore (no real time); the stop-vs-accept tie inside one poll of the accept loop cannot be produced on a single-threaded runtime.", "DESIGN.md §4 C17"),
 "C19": ("netsim", "exploration",
         "bounded-exhaustive enumeration of target shapes through the real gRPC discovery and strategy adapters against an in-process tonic server generated from the repository's .proto files, in all three directions, through the adapters as the application builds them (Dyn*Adapter::from_config)",
         "About 700 (quick) / 4 000 (thorough) RPCs: host text x port x identifier x metadata in discovery replies, 11 histories of consecutive replies on one adapter instance (a malformed reply repeated, between and after good ones), candidate lists x reply policy (none, echo of the i-th candidate exactly as received, foreign target of every shape) x client/server address x player in select(), 16 histories of 4 select() calls on one adapter instance whose candidate lists differ only in metadata values, metadata keys, one address, one identifier, order or length; identity on (identifier, socket address, metadata) for well-formed addresses, error for malformed ones.",
         "tonic/prost trusted for message coding; DNS-name hosts only checked for 'no panic'; bracketed/scoped IPv6 literals may be rejected or accepted unchanged.", "DESIGN.md §4 C19"),
 "C20": ("netsim", "model_checking",
         "enumeration of all watch-event histories (depth 2/3/4) over 21 events served by a mock Kubernetes LIST/WATCH API to the real Agones adapter (kube watcher and backoff unmodified); marker-object barrier after every event; reference map of last observed objects",
         "About 700 (quick) / 20 000 (thorough) histories from 3 initial lists: ADDED/MODIFIED in 8 shapes (one with most metadata taken off, one marked for deletion but still Allocated), DELETED, BOOKMARK, clean watch close, 410 Gone with re-list, changes made while the watch is down, and a server-side watch failure alone or written together with the preceding event; after every event the offered set must equal exactly the objects whose last observed state is Ready/Allocated and convertible, with current address, first port and metadata, and no metadata key that only an earlier version of the object carried.",
         "hand-written HTTP/1.1 mock of the Kubernetes API; event application order is the stream order (barrier argument); real time only in 5-8 s barrier deadlines.", "DESIGN.md §4 C20"),
}

# Round 6: the connection-level properties are also decided on the assembled router. netsim hosts every check; the
# engine that does the first (and largest) part of the exploration stays named in the technique.
WORLD = "; then, against the real Listener on loopback (one fresh instance per run, recording adapters, discovery behind a gate), every schedule of two clients at the granularity of protocol stages - a merge of the two stage sequences with a bounded number of switches between the clients (thorough: every merge) - and every placement of the shutdown request among the stages of one client; each client is compared with the same client served alone"
APP = "; then whole connections to the application itself (passage::start in a child process, its configuration read by Config::read() from a YAML file and a secret file), judged against what that configuration says"
WORLD_TEXT = " On the assembled router: two clients (an honest player next to a second player, a player of another protocol version, a player who goes away after 1, 3 or 5 stages, one who answers with the other's verify token, one who announces the same source, one who presents the same or a forged cookie, one nobody vouches for, a status client) are advanced stage by stage in every order within the switch bound against a fresh Listener per run (plain; PROXY protocol + limiter + secret), and shutdown is requested after every stage of a lone client; what each client is sent must equal what it is sent when served alone, and the property's own oracle is applied to every record. The application started from configuration files is driven through the cases the property is about (routing table and messages, frame lengths around the configured maximum in three states, forged and genuine cookies, lock-step and pipelined logins of three protocol versions, status exchanges for every host length 0..255, a Keep Alive withheld for 16 s, issued cookies and ages around the default expiry)."
for _pid in ["C01", "C02", "C03", "C04", "C05", "C06", "C08", "C09", "C10"]:
    e, lvl, tech, text, note, ref = CHECKS[_pid]
    CHECKS[_pid] = ("netsim", lvl, tech + WORLD + APP, text + WORLD_TEXT, note, ref)
e, lvl, tech, text, note, ref = CHECKS["C07"]
CHECKS["C07"] = ("netsim", lvl, tech + "; then, in real time, a crowd of 2 x cores + 8 players held inside slow routing at the same time against the real Listener, and a player who withholds Client Information against the application started by passage::start (configuration read by Config::read(), with and without PROXY protocol): each must be sent its first Keep Alive within 16 s and be routed correctly afterwards", text + " In real time (17 s): 40 players inside slow routing at once through the real Listener, and one player per application configuration (plain, PROXY protocol) who has not yet sent Client Information, must each receive a Keep Alive within 16 s of Login Success, and the correct Transfer once routing completes.", note, ref)
for _pid, extra in [("C11", "; plus the application with the Mojang adapter (passage::start in a fresh child process per configured server id, session requests to a loopback mock): the first two logins of each process overlap, later ones follow one by one"), ("C12", "; plus the application with the Mojang adapter (passage::start in a fresh child process per configured server id, session requests to a loopback mock) with hostile claimed names")]:
    e, lvl, tech, text, note, ref = CHECKS[_pid]
    CHECKS[_pid] = (e, lvl, tech + extra, text + " Through the application: six configured server ids (empty, short, exactly 20, 21 and 43 characters, number-like) x overlapping first logins and later logins; every connection must cause exactly one has-joined request for its claimed name carrying the hash of the configured id, its own secret and the key it was sent.", note, ref)

# Round 7: the far ends of the configuration's ranges, and what happens after something went wrong.
ROUND7 = {
 "C03": " Over time: five logins one after the other while every discovery call finds other servers and some calls fail - every login consults discovery itself and is routed on that call's answer.",
 "C04": " Frame limits next to i32::MAX; sixteen endings in which the client keeps sending (malformed prefixes, garbage, frames) after the router's own final Disconnect, run in a child process because a handler that spins without yielding cannot be interrupted from inside.",
 "C05": " Writes above 512 bytes are answered from a grid of acceptance sizes (1, n - 1, n / 2, powers of two from 512 and their neighbours) and messages of 9 000 (thorough: 20 000) bytes are explored; eleven endings after the switch (misbehaving client, failing service, no target) are read by a client that decrypts everything with one cipher.",
 "C06": " A silent client's timeout Disconnect taken in part while the running routing stage answers (nothing may follow it); status answers of graded length (around 127/128 and 16383/16384 bytes, up to 32 600) under frame limits from 24 to i32::MAX.",
 "C07": " The timeout Disconnect accepted 1 or 5 bytes with the rest arriving after the running stage answered or after all routing; eleven shapes of operator text for the timeout message.",
 "C08": " The same exchanges under frame limits of 16 384, 2 097 151 and i32::MAX.",
 "C09": " Clientbound frames of graded length under graded frame limits; serverbound frames with a two-byte length prefix split inside the prefix across routing answers and ticks.",
 "C13": " Windows of two hours and one day; through the Listener, eight attempts of mixed fate (backend fails, garbage, hang-up, served) under limit 3.",
 "C14": " Cookie Responses and a plugin message at max, max + 1, max + 200 bytes; an expiry shorter than the timeout; connections in flight at SIGINT keep their deadline; a protocol error followed by a trickle of bytes.",
 "C16": " 2 x cores + 3 stalled logins; 1500 connections reset while still in the accept backlog; sources announced in IPv4-mapped form; a listener that returns on its own is a verdict.",
 "C18": " Players whose authenticated name differs from the claimed one; players overlapping in discovery while the discovered metadata changes; the player whose discovery call failed followed to the end.",
 "C19": " Two and three discover() calls in flight answered in every order; error statuses before a healthy strategy service; six whole connections through the Listener (IPv4, IPv6, IPv4-mapped announced sources).",
 "C20": " LIST responses delivered late after a watch error; initial lists streamed as events (streaming_lists()) with servers that change before the end-of-initial-events bookmark.",
}
for _pid, extra in ROUND7.items():
    e, lvl, tech, text, note, ref = CHECKS[_pid]
    CHECKS[_pid] = (e, lvl, tech, text + extra, note, ref)

# Round 8: the thousandth use instead of the first; pairs of features.
ROUND8 = {
 "C01": " Accumulation: 5 000 logins in one process judged around every power of two; 400 (thorough 3 000) logins on one real listener; profiles whose properties exceed a 5 KiB cookie.",
 "C02": " Accumulation: 8 000 valid cookies, then forty forged ones presented three times each. The router's own two cookies brought back together and alone from the same and from other addresses.",
 "C03": " A fleet of 3 000 servers with the choice at positions 0, 1 023, 1 024, 2 999; returning players who report another language and find no target; 400 (3 000) logins on one real listener.",
 "C04": " 6 000 (20 000) clients announcing as many different sources after two idle limiter windows, with a panic counter and a late client.",
 "C05": " One undisturbed stream of 34 000 (100 000) bytes per direction.",
 "C06": " The replies to the n-th of 5 000 connections of a process; 400 (3 000) logins on one real listener.",
 "C07": " A player who waits a day and a half (8 000 Keep Alives), echoing promptly, with a delay, or only the first 4 000 times.",
 "C08": " A client that sends 40 plugin messages before Client Information; a refusal after slow routing.",
 "C09": " Login Cookie Responses of 200 to 4 900 bytes in their phase.",
 "C10": " The cookie of the n-th of 5 000 connections; session ids as connection #1, #3, #259, #4 099, #65 537 of a run of status exchanges; property sets beyond 5 KiB.",
 "C11": " Nineteen logins of one process over four and a half virtual days under one clock.",
 "C12": " 1 300 players and their return on one adapter instance.",
 "C13": " Headers that announce nobody (UNKNOWN, LOCAL) over and over through the Listener.",
 "C14": " 1 500 silent connections inside one timeout window.",
 "C16": " Churn next to one silent connection; a status client that takes 2.5 s between its packets next to a limiter with a one second window.",
 "C17": " 2 500 short-lived connections between an in-flight connection and the stop.",
 "C18": " 1 100 host names on one set of filters.",
 "C19": " A fleet of 6 000 distinct addresses four times over one adapter instance.",
 "C20": " A fleet of 640 servers observed between the pages of its re-list.",
}
for _pid, extra in ROUND8.items():
    e, lvl, tech, text, note, ref = CHECKS[_pid]
    CHECKS[_pid] = (e, lvl, tech, text + extra, note, ref)

# Round 9: two cooperating sites; unusual but legal values from the peer. And the other direction: property-preserving
# changes (60 of them, written by sub-agents told to keep all twenty properties true) against which the checks must stay
# silent - several oracles that had fitted themselves to the present implementation were re-cut to the statements.
ROUND9 = {
 "C02": " Cookie Responses under a key the server did not ask for (a genuine authentication cookie in the session cookie's slot, Login and Transfer intent).",
 "C03": " Targets that share one identifier and differ in their address; 34 client locales that are not shaped like ll_cc (pattern characters, letter case, characters whose lower-case form has another length, blanks, NUL); a lookup that ignores letter case is accepted as well.",
 "C04": " The same 34 odd locales on both Disconnect paths; a handler that never gives control back (spins inside one poll) is turned into a verdict by a per-case watchdog instead of hanging the check.",
 "C06": " Cookie Requests may be sent ahead of the answers they do not depend on (the statement fixes the order the client sees, not lock-step); the status service may be asked any time after a status handshake.",
 "C07": " The odd locales for silent and for wrongly echoing clients; the name of the error a timed-out connection ends with is not judged.",
 "C08": " Eight scenarios with byte streams a well-behaved client would not produce but may: length prefixes written with 2, 3 and 5 bytes (status exchange and whole logins), and an empty frame between two frames - whatever the router makes of them, it makes of them under every segmentation.",
 "C10": " A refreshed cookie for a returning player may carry the original time stamp.",
 "C12": " Sixteen untidy claimed names through whole connections (control characters, blanks at the ends, letter case, composed and decomposed accents, full-width letters): the request asks about the name as claimed, or the client is turned away without any request.",
 "C13": " 'No more than limit admissions between two window starts' is judged for ANY placement of window starts at least one duration apart (a limiter may keep its windows per key or on one grid for all keys); through the Listener, pairs of addresses that a conversion between IPv4 and IPv6 forms would fold together.",
 "C14": " A configuration without any secret (cookies signed with the empty key, some key, a line break: none validates); a completed status exchange followed by a trickle of bytes; frames that must be served are legal in every other respect too (host names within 255 UTF-16 units); children started through passage::start are ready when they themselves hold the listening socket.",
 "C15": " PROXY version 2 headers that name the datagram transport (served as the announced source or not at all, never as the load balancer).",
 "C16": " An address that used its budget up comes back at six moments of the limiter's cycle (inside the window, during the roll-over, after the clean-up): clients from other addresses are still served within the bound; a refusal may take the form of a reset that overtakes connect().",
 "C17": " Three histories (limiter + PROXY protocol) of connections accepted before the stop whose header arrives after it; a client that keeps sending after its Transfer under a 2 s connection timeout; an in-flight connection is known to be accepted because a later connection was served, not because time has passed.",
 "C18": " Metadata keys present with an empty value; a player name outside [A-Za-z0-9_].",
 "C20": " Game servers in two namespaces, so that a cluster-wide list (namespace, then name) is not sorted by name.",
}
for _pid, extra in ROUND9.items():
    e, lvl, tech, text, note, ref = CHECKS[_pid]
    CHECKS[_pid] = (e, lvl, tech, text + extra, note, ref)

ALL = ["C%02d" % i for i in range(1, 21)]
NOT_YET = {}

def main():
    checks = []
    for pid in ALL:
        if pid not in CHECKS:
            continue
        eng, level, tech, text, note, ref = CHECKS[pid]
        checks.append({
            "property_id": pid,
            "quick_cmd": f"./check {pid} quick",
            "thorough_cmd": f"./check {pid} thorough",
            "evidence_file": f"/verif/evidence/{pid}.json",
            "replay_cmd_template": f"./check {pid} --replay {{path}}",
            "engine": eng,
            "level_claimed": {"category": level, "text": text, "design_ref": ref},
            "level_note": note,
            "technique": tech,
        })
    na = [{"property_id": p, "reason": NOT_YET.get(p, "check not built yet in this revision of /verif (planned, see DESIGN.md §4); not claimed until it runs")}
          for p in ALL if p not in CHECKS]
    hooks_commits = subprocess.run(["git", "-C", "/repo", "log", "--format=%h %s", "--grep=^verif-hook"], capture_output=True, text=True).stdout.strip().splitlines()
    m = {
        "version": 1,
        "setup_cmd": "cd /verif/harness && CARGO_NET_OFFLINE=true cargo build --release --offline --workspace",
        "hooks": {
            "guard": "cargo feature `verif-hooks` (declared only in crates that carry a hook; never a default feature)",
            "enable": "the harness workspace depends on the hooked crates by path with features=[\"verif-hooks\"]; nothing else enables it",
            "baseline_off_cmd": "cd /repo && cargo nextest run --workspace --no-fail-fast --test-threads 8 --offline || cargo test --workspace --no-fail-fast --offline",
            "source_commits": [c.split()[0] for c in hooks_commits],
            "add_only": True,
        },
        "engines": [
            {"name": "enumk", "path": "harness/enumk", "serves_properties": [p for p in ALL if p in CHECKS and CHECKS[p][0] == "enumk"],
             "kind_free_text": "E2: bounded-exhaustive enumeration of finite input / history products against independent references (a library: netsim runs its enumerations as the first part of C09, C11, C13, C18)"},
            {"name": "vsim", "path": "harness/vsim", "serves_properties": [p for p in ALL if p in CHECKS and CHECKS[p][0] == "vsim"],
             "kind_free_text": "E1: virtual transport + scripted adapters + paused clock around the real Connection; deviation-bounded and explicit-state exploration (a library with a stand-alone binary: netsim runs its sweeps as the first part of C01-C08 and C10)"},
            {"name": "netsim", "path": "harness/netsim", "serves_properties": [p for p in ALL if p in CHECKS and CHECKS[p][0] == "netsim"],
             "kind_free_text": "E3: loopback peers (raw TCP, tonic, HTTP, Kubernetes list/watch mocks) around the real Listener, the adapters and passage::start child processes; enumeration of event histories and stage-wise schedules with barrier-based verdicts; hosts every check (E1 / E2 parts run first, one report)"},
        ],
        "checks": checks,
        "not_applicable": na,
        "notes": "Harness is built with RUSTFLAGS --cfg tokio_unstable (harness/.cargo/config.toml) for deterministic select! draws; this is a flag on the harness build of tokio, not a change to /repo. Exit codes: 0 held / only known findings (printed as KNOWN-FINDING lines from /verif/known_findings.txt), 1 violation, 2 machinery error (never a verdict). Seeded property-breaking changes and which checks catch them: /verif/seeded, /verif/MUTANTS.md.",
    }
    json.dump(m, open("/verif/MANIFEST.json", "w"), indent=1)
    import jsonschema
    jsonschema.validate(m, json.load(open("/root/.vp/MANIFEST.schema.json")))
    print("MANIFEST.json valid;", len(checks), "checks,", len(na), "not claimed")

main()
