#!/opt/veriftools/pyvenv/bin/python3
"""Generates /verif/MANIFEST.json from the table below and validates it against the schema."""
import json, subprocess, sys

# id -> (engine, level, technique, level text, level note, design ref)
CHECKS = {
 "C09": ("enumk", "exploration",
         "bounded-exhaustive enumeration of a finite product of field domains (all 2^32 VarInts in the thorough tier) against an independent reference codec",
         "Every packet type with fields is encoded and decoded for the full product of per-field boundary domains and compared byte-for-byte with an encoder written from the protocol description; VarInt is covered completely (thorough), VarLong on boundary-dense families. The space is finite and enumerated completely, so the result is a coverage statement, not a sample.",
         "The reference codec in harness/common/src/refs/codec.rs (unit-tested against the documented VarInt vectors) is trusted; string contents are boundary families, not all strings.", "DESIGN.md §4 C09"),
 "C11": ("enumk", "exploration",
         "bounded-exhaustive enumeration of (server id, secret, key) triples against an independent SHA-1 / two's-complement printer, with digest-class vacuity guards",
         "All enumerated inputs (2^14 / 2^20 counter secrets x 9 server ids x 3 keys, every secret of <= 2 bytes, the published vectors split every way) are compared with an independent implementation; the run fails as machinery error unless negative digests and digests with 1..4 leading zero nibbles all occurred.",
         "The independent SHA-1 is validated against FIPS and the published Minecraft vectors at start-up; the edge digest 0x80 00..00 is unreachable through the public function and not covered.", "DESIGN.md §4 C11"),
 "C13": ("enumk", "model_checking",
         "explicit-state, depth-bounded enumeration of all arrival histories over a timing alphabet, each replayed on a fresh real RateLimiter under tokio's paused clock, checked against the stated bounds and by differential deletion of events",
         "All histories up to depth 7 (quick) / 9 (thorough) over 3 keys and 8 inter-arrival times including the +-1 ms neighbours of the window boundaries, for limits 1..3. Oracles are the bounds of the statement (per-window, per-interval, idle re-admission), independence from other keys and from cleanup (history with other keys deleted), rejected-attempts-consume-nothing (history with the rejected attempt deleted) and the tracked-key gauge read through the metrics SDK.",
         "tokio's paused clock is the time base; 3 keys, limits 1..3 and d = 8 s stand for 'any'; the size gauge is only written (and judged) at admitted attempts.", "DESIGN.md §4 C13"),
 "C18": ("enumk", "exploration",
         "bounded-exhaustive enumeration of filter chains x strategies x target lists x players x host names, adapters built through the application's from_config (and YAML), against an independent evaluator",
         "Full product over every single filter shape (1035), every ordered pair from a reduced menu, all strategy configurations and target lists up to 3 with every count spelling; the oracle is written from the statement and accepts either reading where the statement is silent.",
         "regex crate trusted for the three fixed patterns; readings of absent/non-numeric counts and of an allow filter with no list are both accepted.", "DESIGN.md §4 C18"),
}

ALL = ["C%02d" % i for i in range(1, 21)]
NOT_YET = {}

def main():
    checks = []
    for pid in ALL:
        if pid not in CHECKS:
            continue
        eng, level, tech, text, note, ref = CHECKS[pid]
        checks.append({
            "property_id": pid,
            "quick_cmd": f"./check {pid} quick",
            "thorough_cmd": f"./check {pid} thorough",
            "evidence_file": f"/verif/evidence/{pid}.json",
            "replay_cmd_template": f"./check {pid} --replay {{path}}",
            "engine": eng,
            "level_claimed": {"category": level, "text": text, "design_ref": ref},
            "level_note": note,
            "technique": tech,
        })
    na = [{"property_id": p, "reason": NOT_YET.get(p, "check not built yet in this revision of /verif (planned, see DESIGN.md §4); not claimed until it runs")}
          for p in ALL if p not in CHECKS]
    hooks_commits = subprocess.run(["git", "-C", "/repo", "log", "--format=%h %s", "--grep=^verif-hook"], capture_output=True, text=True).stdout.strip().splitlines()
    m = {
        "version": 1,
        "setup_cmd": "cd /verif/harness && CARGO_NET_OFFLINE=true cargo build --release --offline --workspace",
        "hooks": {
            "guard": "cargo feature `verif-hooks` (declared only in crates that carry a hook; never a default feature)",
            "enable": "the harness workspace depends on the hooked crates by path with features=[\"verif-hooks\"]; nothing else enables it",
            "baseline_off_cmd": "cd /repo && cargo nextest run --workspace --no-fail-fast --test-threads 8 --offline || cargo test --workspace --no-fail-fast --offline",
            "source_commits": [c.split()[0] for c in hooks_commits],
            "add_only": True,
        },
        "engines": [
            {"name": "enumk", "path": "harness/enumk", "serves_properties": [p for p in ALL if p in CHECKS and CHECKS[p][0] == "enumk"],
             "kind_free_text": "E2: bounded-exhaustive enumeration of finite input / history products against independent references"},
            {"name": "vsim", "path": "harness/vsim", "serves_properties": [p for p in ALL if p in CHECKS and CHECKS[p][0] == "vsim"],
             "kind_free_text": "E1: virtual transport + scripted adapters + paused clock around the real Connection; deviation-bounded and explicit-state exploration"},
            {"name": "netsim", "path": "harness/netsim", "serves_properties": [p for p in ALL if p in CHECKS and CHECKS[p][0] == "netsim"],
             "kind_free_text": "E3: loopback peers (raw TCP, tonic, HTTP, Kubernetes list/watch mocks) around the real Listener and adapters; enumeration of event histories with barrier-based verdicts"},
        ],
        "checks": checks,
        "not_applicable": na,
        "notes": "Harness is built with RUSTFLAGS --cfg tokio_unstable (harness/.cargo/config.toml) for deterministic select! draws; this is a flag on the harness build of tokio, not a change to /repo. Exit codes: 0 held / only known findings (printed as KNOWN-FINDING lines from /verif/known_findings.txt), 1 violation, 2 machinery error (never a verdict). Seeded property-breaking changes and which checks catch them: /verif/seeded, /verif/MUTANTS.md.",
    }
    json.dump(m, open("/verif/MANIFEST.json", "w"), indent=1)
    import jsonschema
    jsonschema.validate(m, json.load(open("/root/.vp/MANIFEST.schema.json")))
    print("MANIFEST.json valid;", len(checks), "checks,", len(na), "not claimed")

main()
