#!/bin/bash
# tools/slot.sh setup <n>                      scratch copy of /repo (git worktree) and of the harness under /tmp/slot/<n>
# tools/slot.sh sync <n>                       bring the slot's harness copy up to date with /verif/harness
# tools/slot.sh run <n> <patch.diff> <ID> [tier] [base]   apply a seeded change to the slot's repo copy, run the check there, undo
# tools/slot.sh runall <n> <patch.diff> <tier> <ID>...   apply a change, run several checks against it, undo
# tools/slot.sh check <n> <ID> [tier]           run a check in the slot on the slot's unchanged copy of /repo
# tools/slot.sh teardown <n>                   remove the slot (worktree, build output)
# Slots exist so that several seeded changes can be tried at once without ever touching /repo; the checks
# registered in MANIFEST.json never use them.
set -u
CMD="$1"; N="$2"; S=/tmp/slot/$N
copy_harness() {
  mkdir -p "$S/verif/evidence"
  rsync -a --delete --exclude target /verif/harness "$S/verif/"
  cp /verif/check /verif/known_findings.txt "$S/verif/"
  sed -i "s#\"/repo#\"$S/repo#g" "$S/verif/harness/Cargo.toml" "$S/verif/harness/netsim/Cargo.toml" "$S/verif/harness/netsim/build.rs"
  sed -i "s#/verif/target#$S/verif/target#" "$S/verif/harness/.cargo/config.toml" "$S/verif/harness/netsim/src/c20.rs"
  sed -i "s#VERIF_ROOT: &str = \"/verif\"#VERIF_ROOT: \&str = \"$S/verif\"#" "$S/verif/harness/common/src/lib.rs"
  sed -i "s#/verif/target#$S/verif/target#g" "$S/verif/check"
}
case "$CMD" in
  setup)
    mkdir -p "$S"
    [ -d "$S/repo" ] || git -C /repo worktree add -q --detach "$S/repo" HEAD
    copy_harness
    [ -d "$S/verif/target" ] || cp -r --reflink=auto /verif/target "$S/verif/target"
    (cd "$S/verif/harness" && cargo build --release --offline --workspace 2>&1 | tail -n 2)
    ;;
  sync)
    (cd "$S/repo" && git checkout -q --detach "$(git -C /repo rev-parse HEAD)" && git checkout -- .)
    copy_harness
    (cd "$S/verif/harness" && cargo build --release --offline --workspace 2>&1 | tail -n 1)
    ;;
  run)
    PATCH="$3"; ID="$4"; TIER="${5:-quick}"; BASE="${6:-}"
    cd "$S/repo" && git checkout -- . || exit 3
    git clean -fdq -e target
    # the patch as it is; else merged onto the current tree (the files it touches moved on since it was written:
    # later fix: commits); else, as a last resort, the touched files as they were at the seed's base
    if git apply --check "$PATCH" 2>/dev/null; then
      git apply "$PATCH"
    elif git apply --3way "$PATCH" >/dev/null 2>&1; then
      git reset -q
    else
      git checkout HEAD -- . ; git reset -q
      if [ -n "$BASE" ]; then
        for f in $(grep '^+++ b/' "$PATCH" | cut -c7-); do git checkout "$BASE" -- "$f" 2>/dev/null; done
      fi
      git apply "$PATCH" || { echo "patch does not apply"; git checkout HEAD -- . ; git reset -q; exit 3; }
    fi
    "$S/verif/check" "$ID" "$TIER" > "$S/out.txt" 2>&1; RC=$?
    git checkout HEAD -- . ; git reset -q; git clean -fdq -e target
    grep -E "^(VIOLATION|KNOWN-FINDING|MACHINERY|property=)" "$S/out.txt" | cut -c1-300 | head -n 40
    echo "exit=$RC"
    find "$S/verif/replays" -mindepth 1 -delete 2>/dev/null
    ;;
  runall)
    # tools/slot.sh runall <n> <patch.diff> <tier> <ID>...   one patch, many checks (false-alarm runs: every check must stay silent)
    PATCH="$3"; TIER="$4"; shift 4
    cd "$S/repo" && git checkout -- . || exit 3
    git clean -fdq -e target
    git apply "$PATCH" || { echo "patch does not apply"; exit 3; }
    for ID in "$@"; do
      "$S/verif/check" "$ID" "$TIER" > "$S/out.$ID.txt" 2>&1; RC=$?
      echo "$ID exit=$RC $(grep -E "^(VIOLATION|KNOWN-FINDING|MACHINERY)" "$S/out.$ID.txt" | cut -c1-260 | head -n 6 | tr '\n' '|')"
    done
    git checkout HEAD -- . ; git reset -q; git clean -fdq -e target
    find "$S/verif/replays" -mindepth 1 -delete 2>/dev/null
    ;;
  check)
    # tools/slot.sh check <n> <ID> [tier]   run a check in the slot against the slot's unchanged copy of /repo
    ID="$3"; TIER="${4:-quick}"
    cd "$S/repo" && git checkout -- . || exit 3
    "$S/verif/check" "$ID" "$TIER" > "$S/out.txt" 2>&1; RC=$?
    grep -E "^(VIOLATION|KNOWN-FINDING|MACHINERY|property=)" "$S/out.txt" | cut -c1-300 | head -n 40
    echo "exit=$RC"
    ;;
  teardown)
    git -C /repo worktree remove --force "$S/repo" 2>/dev/null
    rm -rf "$S"
    ;;
esac
