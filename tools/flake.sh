#!/bin/bash
# tools/flake.sh <rounds> : runs every quick check <rounds> times with different seeds; prints any run that is not exit 0
cd /verif
R=${1:-5}
for r in $(seq 1 $R); do
  for id in C01 C02 C03 C04 C05 C06 C07 C08 C09 C10 C11 C12 C13 C14 C15 C16 C17 C18 C19 C20; do
    OUT=$(VERIF_SEED=$r ./check $id quick 2>&1); RC=$?
    if [ $RC -ne 0 ]; then echo "round $r $id exit $RC"; echo "$OUT" | grep -E "^violation|MACHINERY|panicked" | head -3 | cut -c1-300; fi
  done
done
echo "flake run done ($R rounds)"
