#!/usr/bin/env python3
"""tools/par_benign.py [--slots 1,2,3,4] [--tier quick] <dir with <name>/patch.diff>... 
False-alarm runs: every property-preserving change (written by a sub-agent that was told to keep all twenty
properties true) is applied in a scratch slot and ALL checks are run against it; any VIOLATION is either a false
alarm of the machinery (to be corrected) or a change that does bend a property after all (to be argued case by
case). Results are appended to /verif/benign_results.jsonl."""
import json, os, queue, subprocess, sys, threading
args = sys.argv[1:]
slots = ["1", "2", "3", "4"]; tier = "quick"; ids = [f"C{i:02d}" for i in range(1, 21)]
while args and args[0].startswith("--"):
    if args[0] == "--slots": slots = args[1].split(",")
    if args[0] == "--tier": tier = args[1]
    if args[0] == "--ids": ids = args[1].split(",")
    args = args[2:]
auto = os.environ.get("BENIGN_AUTO") == "1"
def relevant(d):
    """with BENIGN_AUTO=1: the checks whose subject the patch touches (by file), plus the property it was written around"""
    files = [l[6:].strip() for l in open(f"{d}/patch.diff") if l.startswith("+++ b/")]
    want = set()
    m = os.path.basename(d.rstrip("/"))[:3]
    if m.startswith("C"): want.add(m)
    for f in files:
        if "passage-protocol/src/connection" in f or "cookie" in f or "passage-protocol/src/error" in f or "passage-protocol/src/lib" in f or "metrics" in f or "keep_alive" in f or "router" in f or "frame" in f:
            want |= {f"C{i:02d}" for i in range(1, 11)} | {"C14"}
        if "listener" in f or "rate_limiter" in f or "proxy" in f:
            want |= {"C02", "C08", "C13", "C14", "C15", "C16", "C17"}
        if "crypto" in f: want |= {"C01", "C04", "C05", "C06", "C08", "C11"}
        if "passage-packets" in f: want |= {"C04", "C06", "C08", "C09"}
        if "passage-adapters/src" in f: want |= {"C03", "C07", "C11", "C18"}
        if "grpc" in f: want |= {"C19"}
        if "agones" in f: want |= {"C20"}
        if "http" in f: want |= {"C11", "C12", "C01"}
        if f.startswith("src/"): want |= {"C03", "C14", "C15", "C17", "C18", "C19", "C20", "C11"}
    return sorted(want)
q = queue.Queue()
for d in args:
    if os.path.exists(f"{d}/patch.diff"):
        q.put(d)
lock = threading.Lock()
def worker(slot):
    while True:
        try: d = q.get_nowait()
        except queue.Empty: return
        name = os.path.basename(d.rstrip("/"))
        run_ids = relevant(d) if auto else ids
        c = subprocess.run(["/verif/tools/slot.sh", "runall", slot, f"{d}/patch.diff", tier] + run_ids, capture_output=True, text=True)
        res = {}
        for l in c.stdout.splitlines():
            p = l.split(" ", 2)
            if len(p) >= 2 and p[1].startswith("exit="):
                res[p[0]] = {"exit": int(p[1][5:]), "lines": p[2] if len(p) > 2 else ""}
        rec = {"change": name, "tier": tier, "alarms": sorted(k for k, v in res.items() if v["exit"] == 1),
               "machinery": sorted(k for k, v in res.items() if v["exit"] not in (0, 1)), "silent": sorted(k for k, v in res.items() if v["exit"] == 0),
               "detail": {k: v["lines"] for k, v in res.items() if v["exit"] != 0}}
        if "patch does not apply" in c.stdout: rec["error"] = "patch does not apply"
        with lock:
            open("/verif/benign_results.jsonl", "a").write(json.dumps(rec) + "\n")
            print(name, "alarms:", rec["alarms"], "machinery:", rec["machinery"], flush=True)
ts = [threading.Thread(target=worker, args=(s,)) for s in slots]
[t.start() for t in ts]; [t.join() for t in ts]
