#!/usr/bin/env python3
"""tools/keep_round.py <round dir with out/<ID>-<X>/{patch.diff,demo.rs,notes.md}> <round label> [ID-X ...]
Keeps the confirmed changes of a round under /verif/seeded/<ID>-<n> (n = next free number of that property)."""
import json, os, re, subprocess, sys
rd, label = sys.argv[1:3]
only = set(sys.argv[3:])
done = {}
mapf = f"{rd}/out/kept.json"
if os.path.exists(mapf):
    done = json.load(open(mapf))
for d in sorted(os.listdir(f"{rd}/out")):
    m = re.fullmatch(r"(C\d\d)-([A-Z])", d)
    if not m or (only and d not in only) or d in done:
        continue
    prop, x = m.groups()
    src = f"{rd}/out/{d}"
    if not os.path.exists(f"{src}/patch.diff"):
        continue
    nums = [int(n.split("-")[1]) for n in os.listdir("/verif/seeded") if n.startswith(prop + "-") and n.split("-")[1].isdigit()]
    new = f"{prop}-{max(nums + [0]) + 1}"
    notes = open(f"{src}/notes.md").read() if os.path.exists(f"{src}/notes.md") else ""
    crate = "passage-protocol"
    mm = re.search(r"crate_dir:[ `]*([^ `\n]+)", notes)
    if mm:
        crate = mm.group(1)
    # the paragraph(s) that say what is needed for the change to manifest
    paras = [p.strip() for p in notes.split("\n\n")]
    need = [p for p in paras if re.search(r"manifest|needs|only show|trigger", p, re.I)]
    needs = f"({label}) " + re.sub(r"\s+", " ", " ".join(need[:2]) if need else " ".join(paras[1:3]))[:900]
    env = dict(os.environ, CONFIRM_NAME=d)
    r = subprocess.run(["python3", "/verif/tools/keep_seed.py", new, src, crate, needs], env=env, capture_output=True, text=True)
    print(d, "->", new, r.stdout.strip()[-60:], r.stderr.strip()[-300:])
    if r.returncode == 0:
        done[d] = new
json.dump(done, open(mapf, "w"), indent=1)
