#!/bin/bash
# tools/process_s3.sh <ID> [tier]   round-3 intake for the two changes a sub-agent left in /tmp/s3/<ID>/_seed/{A,B}:
#   1. copy them to /tmp/s3/out/<ID>-{A,B}
#   2. confirm each in the (now idle) authoring worktree /tmp/s3/<ID>: suite 77/77 with the change, demo fails
#      with it and passes without (tools/confirm_seed.sh, log /tmp/wt/confirm.log)
#   3. run the property's check against each in a free scratch slot (tools/slot.sh); /repo is never touched
# Result lines go to /tmp/s3/out/<ID>.result
set -u
ID="$1"; TIER="${2:-quick}"
mkdir -p /tmp/s3/out /tmp/wt
for X in A B; do
  [ -d "/tmp/s3/$ID/_seed/$X" ] && rm -rf "/tmp/s3/out/$ID-$X" && cp -r "/tmp/s3/$ID/_seed/$X" "/tmp/s3/out/$ID-$X"
done
: > "/tmp/s3/out/$ID.result"
for X in A B; do
  D="/tmp/s3/out/$ID-$X"
  [ -f "$D/patch.diff" ] || { echo "$ID-$X: nothing delivered" >> "/tmp/s3/out/$ID.result"; continue; }
  CRATE=$(head -n 5 "$D/notes.md" | grep -m1 -i 'crate_dir' | sed 's/.*crate_dir:[ `]*\([^ `]*\).*/\1/')
  [ -n "$CRATE" ] || CRATE=passage-protocol
  FEAT=""
  grep -q 'verif-hooks' "$D/notes.md" "$D/demo.rs" 2>/dev/null && FEAT=verif-hooks
  export CARGO_BUILD_JOBS=6
  CONFIRM_WT="/tmp/s3/$ID" DEMO_FEATURES="$FEAT" /verif/tools/confirm_seed.sh "$ID-$X" "$D" "$CRATE" >/dev/null 2>&1
  CONF=$(grep "\"seed\":\"$ID-$X\"" /tmp/wt/confirm.log | tail -n 1)
  # find a free slot
  while :; do
    for N in 1 2 3 4; do
      [ -f "/tmp/slot/$N.ready" ] || continue
      exec 9>"/tmp/slot/$N.lock"
      if flock -n 9; then
        OUT=$(/verif/tools/slot.sh run "$N" "$D/patch.diff" "$ID" "$TIER" 2>&1)
        flock -u 9
        break 2
      fi
    done
    sleep 5
  done
  {
    echo "== $ID-$X crate=$CRATE confirm=$CONF"
    echo "$OUT" | tail -n 12
  } >> "/tmp/s3/out/$ID.result"
done
cat "/tmp/s3/out/$ID.result"
