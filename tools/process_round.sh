#!/bin/bash
# ROUND_DIR=/tmp/s4 SLOTS="2 3 4" tools/process_round.sh <ID> [tier]   intake for the two changes a sub-agent left in $ROUND_DIR/<ID>/_seed/{A,B}:
#   1. copy them to $ROUND_DIR/out/<ID>-{A,B}
#   2. confirm each in the (now idle) authoring worktree $ROUND_DIR/<ID>: suite 77/77 with the change, demo fails
#      with it and passes without (tools/confirm_seed.sh, log /tmp/wt/confirm.log)
#   3. run the property's check against each in a free scratch slot (tools/slot.sh); /repo is never touched
# Result lines go to $ROUND_DIR/out/<ID>.result
set -u
ROUND_DIR="${ROUND_DIR:-/tmp/s3}"
ID="$1"; TIER="${2:-quick}"
mkdir -p $ROUND_DIR/out /tmp/wt
for X in A B; do
  [ -d "$ROUND_DIR/$ID/_seed/$X" ] && rm -rf "$ROUND_DIR/out/$ID-$X" && cp -r "$ROUND_DIR/$ID/_seed/$X" "$ROUND_DIR/out/$ID-$X"
done
: > "$ROUND_DIR/out/$ID.result"
for X in A B; do
  D="$ROUND_DIR/out/$ID-$X"
  [ -f "$D/patch.diff" ] || { echo "$ID-$X: nothing delivered" >> "$ROUND_DIR/out/$ID.result"; continue; }
  CRATE=$(head -n 5 "$D/notes.md" | grep -m1 -i 'crate_dir' | sed 's/.*crate_dir:[ `]*\([^ `]*\).*/\1/')
  [ -n "$CRATE" ] || CRATE=passage-protocol
  FEAT=""
  grep -q 'verif-hooks' "$D/notes.md" "$D/demo.rs" 2>/dev/null && FEAT=verif-hooks
  export CARGO_BUILD_JOBS=6
  CONFIRM_WT="$ROUND_DIR/$ID" DEMO_FEATURES="$FEAT" /verif/tools/confirm_seed.sh "$ID-$X" "$D" "$CRATE" >/dev/null 2>&1
  CONF=$(grep "\"seed\":\"$ID-$X\"" /tmp/wt/confirm.log | tail -n 1)
  # find a free slot
  while :; do
    for N in ${SLOTS:-1 2 3 4}; do
      [ -f "/tmp/slot/$N.ready" ] || continue
      exec 9>"/tmp/slot/$N.lock"
      if flock -n 9; then
        OUT=$(/verif/tools/slot.sh run "$N" "$D/patch.diff" "$ID" "$TIER" 2>&1)
        flock -u 9
        break 2
      fi
    done
    sleep 5
  done
  {
    echo "== $ID-$X crate=$CRATE confirm=$CONF"
    echo "$OUT" | tail -n 12
  } >> "$ROUND_DIR/out/$ID.result"
done
cat "$ROUND_DIR/out/$ID.result"
